"""C19 - parallel kernels give the same answer for every thread count and schedule."""
from __future__ import annotations

import os

import numpy as np

from vlib import refmodels, sched
from vlib.core import exc_site, fmt_exc
from vlib.redzone import Frame, leaked

PROPERTY = "C19"
LEVEL = "exploration"
NUMBA_THREADS = 16
MAX_JOBS = 4
CLAIM = {
    "text": "Exploration by runtime monitoring under schedule stress: every parallel=True kernel named by the property (extract_tim, extract_bpass, mask_channels, dedisperse, subband, remove_zerodm, invert_freq, compute_online_moments(_basic), downsample_1d/2d_mean_parallel) is driven directly on exact-arithmetic inputs of shapes from (1 channel, 1 sample) to > 10^5 iterations, red-zone framed, under threads {1,2,3,4,8,16} (thorough: 1..16) x parallel chunk sizes {0,1,2,3,7,64} x R repetitions, with 4 worker processes oversubscribing the 16 cores and a second pass pinned to two cores (16 OpenMP threads time-slicing); all outputs must be bit-identical to each other and to a numpy evaluation of the kernel's definition (and to .py_func on small shapes), canaries must be intact, and a deliberately racy probe kernel run under exactly the same configurations must have produced wrong answers, otherwise the run is inconclusive. Rounds 7-8 added: one reader re-used at falling and rising thread counts for band-pass, zero-DM removal, collapse, high-DM sub-banding into 1-52 sub-bands and fold with band counts that do not divide the channel count. Round 9 added: low-DM dedispersion (runs of channels sharing a delay) and channel masking with non-64-multiple channel counts in the reader-reuse sweep. Round 10 added: Filterbank.downsample with reads of 2^22 samples x channels under 1/2/4/7/16 threads.",
    "design_ref": "DESIGN.md section 3 (C19), 2.2, 2.3",
    "note": "Schedules are sampled, not enumerated: sensitivity is reported as the racy probe's failure count under the same (threads, chunk, repetition) set. Moment kernels are compared bit-for-bit across schedules and with numpy two-pass moments within float32 tolerance (their fastmath float32 recurrences are not bit-comparable with a Python evaluation).",
    "technique": "runtime monitoring: schedule stress (threads x chunk sizes x repetitions, oversubscription) with bit-exact differential oracle, red-zone canaries and a racy sensitivity probe",
}
ASSUMPTIONS = ["integer-valued inputs with partial sums < 2^24 so float32 reductions are exact under any association", "zero-DM weights are dyadic so every product is exact"]
RULE = ("kernel x shape class {degenerate (1x1), tiny, non-multiple-of-threads, large (>1e5 iterations)} x dtype {uint8,float32}: sweep of (threads, chunksize) x R; "
        "non-trivial = shape has more iterations than 1; distinct = distinct (kernel, shape, dtype, config)")
KERNELS = ("extract_tim", "extract_bpass", "mask_channels", "dedisperse", "subband", "remove_zerodm", "invert_freq", "moments", "moments_basic",
           "downsample_1d_par", "downsample_2d_par", "moments_cont", "moments_basic_cont")
SHAPES = {"degenerate": (1, 1), "tiny": (3, 5), "odd": (37, 13), "large": (20011, 8), "wide": (257, 512), "chan1300": (300, 1300)}


def REQUIRED(tier):
    return [f"kernel:{k}" for k in KERNELS] + ["configs_run", "probe_runs", "probe_wrong", "canary_audits", "pyfunc_checks", "shape:large", "shape:degenerate", "affinity_pinned_cases", "kernel:lib_subband", "shape:chan1300", "kernel:lib_push_data", "kernel:lib_downsample", "kernel:moments_cont", "kernel:lib_ts_downsample", "kernel:lib_reader_reuse", "regime:library_read_of_2^22_samples_x_channels"]


def EXTRA_COVERAGE(tier, tot):
    c = tot["counters"]
    return {"racy_probe": {"runs": int(c.get("probe_runs", 0)), "wrong_answers": int(c.get("probe_wrong", 0))},
            "thread_chunk_configs": [list(x) for x in sched.configs(tier)] if False else "threads {1,2,3,4,8,16} (quick) / 1..16 (thorough) x chunks {0,1,2,3,7,64}"}


def cases(tier, seed):
    reps = 3 if tier == "quick" else 12
    k = 0
    for kern in KERNELS:
        for shape in SHAPES:
            for dt in ("uint8", "float32"):
                if kern.startswith("downsample") and dt == "uint8" and shape == "wide":
                    continue
                k += 1
                yield {"kernel": kern, "shape": shape, "dtype": dt, "reps": reps, "seed": int(seed) * 1009 + k, "tier": tier}
    for i in range(4 if tier == "quick" else 16):
        yield {"kernel": "probe", "reps": reps, "seed": int(seed) * 1009 + 5000 + i, "tier": tier}
    # the same kernels with the worker pinned to two cores: 16 OpenMP threads time-slice, preemption inside the parallel region
    for kern in KERNELS:
        for shape in (("odd", "large") if tier == "quick" else tuple(SHAPES)):
            k += 1
            yield {"kernel": kern, "shape": shape, "dtype": "float32" if k % 2 else "uint8", "reps": max(1, reps // 3), "seed": int(seed) * 1009 + k, "tier": tier, "affinity": 2}
    yield {"kernel": "probe", "reps": reps, "seed": int(seed) * 1009 + 7000, "tier": tier, "affinity": 2}
    for i, (nch, mode) in enumerate([(1, "full"), (2, "full"), (4, "full"), (8, "full"), (1, "basic"), (3, "basic")]):
        yield {"kernel": "lib_push_data", "nchans": nch, "mode": mode, "seed": int(seed) * 1009 + 9000 + i, "tier": tier}
    for i, f in enumerate((2, 3, 16)):
        yield {"kernel": "lib_ts_downsample", "factor": f, "seed": int(seed) * 1009 + 9200 + i, "tier": tier}
    for i, tf in enumerate((3, 4, 5, 7)):
        yield {"kernel": "lib_downsample", "tfactor": tf, "seed": int(seed) * 1009 + 9100 + i, "tier": tier}
    # reads of 2^22 and more samples x channels (the default gulp on a 256-channel file): whatever a large-block path does, the product is the same file
    for i, (tf, ff) in enumerate(((2, 2), (3, 1))):
        yield {"kernel": "lib_downsample", "tfactor": tf, "ffactor": ff, "nchans": 256, "N": 2 * 16384 + 1000 + 37 * i, "seed": int(seed) * 1009 + 9150 + i, "tier": tier}
    for nch in (9, 10, 12, 16):
        yield {"kernel": "lib_subband", "nchans": nch, "reps": reps, "seed": int(seed) * 1009 + 9000 + nch, "tier": tier}
    for i, (nch, nsub, nbands) in enumerate(((48, 1, 5), (64, 2, 12), (64, 4, 24), (64, 32, 5), (104, 52, 32))):
        yield {"kernel": "lib_reader_reuse", "nchans": nch, "nsub": nsub, "nbands": nbands, "seed": int(seed) * 1009 + 9300 + i, "tier": tier}


def _build(kern, ns, nch, dt, rng, fr):
    """Returns (call(), get_output(), reference ndarray or dict, pyfunc_call or None)."""
    from sigpyproc.core import kernels as K

    hi = 4 if dt == "uint8" else 4
    X = rng.integers(0, hi, size=(ns, nch)).astype(dt)
    if kern == "remove_zerodm" and ns >= 4:
        # blank spectra (recorder padding for dropped packets): single ones and bursts, so that some sit on parallel chunk boundaries
        blank = rng.random(ns) < 0.2
        for t0 in rng.integers(0, ns, size=max(1, ns // 40)):
            blank[t0 : t0 + int(rng.integers(2, 9))] = True
        X[blank] = 0
    flat = fr.like(X.ravel(), "in")
    Xf = X.astype(np.float64)
    if kern == "extract_tim":
        out = fr.alloc(ns + 3, np.float32, "out", fill=0)
        ref = np.zeros(ns + 3); ref[2 : 2 + ns] = Xf.sum(axis=1)
        return (lambda: (out.fill(0), K.extract_tim(flat, out, nch, ns, 2))), (lambda: out), ref, (lambda o: K.extract_tim.py_func(X.ravel(), o, nch, ns, 2)), (ns + 3, np.float32)
    if kern == "extract_bpass":
        out = fr.alloc(nch, np.float32, "out", fill=0)
        ref = Xf.sum(axis=0) + 1.0
        return (lambda: (out.fill(1), K.extract_bpass(flat, out, nch, ns))), (lambda: out), ref, None, None
    if kern == "mask_channels":
        mask = fr.like(rng.random(nch) < 0.5, "mask")
        mv = X.dtype.type(7)
        work = fr.alloc(ns * nch, dt, "work")
        ref = Xf.copy(); ref[:, np.asarray(mask)] = 7
        return (lambda: (np.copyto(work, X.ravel()), K.mask_channels(work, mask, mv, nch, ns))), (lambda: work), ref.ravel(), None, None
    if kern in ("dedisperse", "subband"):
        md = min(ns - 1, 5) if ns > 1 else 0
        delays = fr.like(np.sort(rng.integers(0, md + 1, size=nch)).astype(np.int32), "delays")
        if nch >= 1:
            d = np.asarray(delays).copy(); d[-1] = md; d[0] = 0 if nch > 1 else md
            delays[...] = d
        nout = ns - md
        dl = np.asarray(delays).astype(np.int64)
        if kern == "dedisperse":
            out = fr.alloc(nout + 2, np.float32, "out", fill=0)
            ref = np.zeros(nout + 2)
            for c in range(nch):
                ref[1 : 1 + nout] += Xf[dl[c] : dl[c] + nout, c]
            return (lambda: (out.fill(0), K.dedisperse(flat, out, delays, md, nch, ns, 1))), (lambda: out), ref, None, None
        nsub = 1 if nch < 2 else (2 if nch % 2 == 0 else 1)
        c2s = fr.like((np.arange(nch) // (nch // nsub)).astype(np.int32), "c2s")
        out = fr.alloc(max(1, nout * nsub), np.float32, "out", fill=0)
        ref = np.zeros((nout, nsub))
        for c in range(nch):
            ref[:, int(c2s[c])] += Xf[dl[c] : dl[c] + nout, c]
        refv = np.zeros(max(1, nout * nsub)); refv[: nout * nsub] = ref.ravel()
        return (lambda: (out.fill(0), K.subband(flat, out, delays, c2s, md, nch, nsub, ns))), (lambda: out), refv, None, None
    if kern == "remove_zerodm":
        out = fr.alloc(ns * nch, dt, "out", fill=0)
        p2 = 1 << int(np.ceil(np.log2(max(nch, 1))))
        wts = fr.like(np.full(nch, 1.0 / (4 * p2), dtype=np.float32), "wts")   # dyadic: products exact
        bp = fr.like(rng.integers(1, 9, size=nch).astype(np.float32), "bp")  # x - zerodm*w > -1, so +1 keeps uint8 results >= 0
        exact = Xf - Xf.sum(axis=1, keepdims=True) * np.asarray(wts, dtype=np.float64) + np.asarray(bp, dtype=np.float64)
        ref = exact.astype(dt).astype(np.float64) if dt == "float32" else np.trunc(exact)
        return (lambda: (out.fill(0), K.remove_zerodm(flat, out, bp, wts, nch, ns))), (lambda: out), ref.ravel(), None, None
    if kern == "invert_freq":
        holder = {}
        return (lambda: holder.__setitem__("o", K.invert_freq(flat, nch, ns))), (lambda: holder["o"]), Xf[:, ::-1].ravel(), (lambda o: K.invert_freq.py_func(X.ravel(), nch, ns)), "return"
    if kern in ("moments", "moments_basic"):
        mom = fr.like(np.zeros(nch, dtype=K.moments_dtype), "moments")
        fn = K.compute_online_moments if kern == "moments" else K.compute_online_moments_basic
        half = ns // 2

        def call():
            mom[...] = np.zeros(nch, dtype=K.moments_dtype)
            if half:
                fn(flat[: half * nch], mom, 0)
                fn(flat[half * nch :], mom, 1)
            else:
                fn(flat, mom, 0)
        return call, (lambda: mom), {"two_pass": refmodels.moments_two_pass(Xf), "full": kern == "moments"}, None, None
    if kern in ("moments_cont", "moments_basic_cont"):
        # a fresh (zeroed) record fed with the continuation flag set (per-segment statistics): whatever the extrema mean then, the record
        # must not depend on how the channel axis was shared out among threads
        mom = fr.like(np.zeros(nch, dtype=K.moments_dtype), "moments")
        fn = K.compute_online_moments if kern == "moments_cont" else K.compute_online_moments_basic

        def call():
            mom[...] = np.zeros(nch, dtype=K.moments_dtype)
            fn(flat, mom, 1)
        return call, (lambda: mom), {"skip_definition": True}, None, None
    if kern == "downsample_1d_par":
        f = max(1, min(3, ns * nch))
        holder = {}
        arr = flat
        m = (ns * nch) // f
        ref = X.ravel()[: m * f].astype(np.float64).reshape(m, f).mean(axis=1)
        ref = np.trunc(ref) if dt == "uint8" else ref.astype(np.float32).astype(np.float64)
        return (lambda: holder.__setitem__("o", K.downsample_1d_mean_parallel(arr, f))), (lambda: holder["o"]), ref, None, None
    if kern == "downsample_2d_par":
        f1, f2 = max(1, min(2, ns)), max(1, min(2, nch))
        holder = {}
        m1, m2 = ns // f1, nch // f2
        ref = Xf[: m1 * f1, : m2 * f2].reshape(m1, f1, m2, f2).mean(axis=(1, 3))
        ref = np.trunc(ref) if dt == "uint8" else ref.astype(np.float32).astype(np.float64)
        return (lambda: holder.__setitem__("o", K.downsample_2d_mean_parallel(flat, f1, f2, ns, nch))), (lambda: holder["o"]), ref.ravel(), None, None
    raise ValueError(kern)


def run_case(case, ctx):
    if case.get("affinity"):
        allowed = sorted(os.sched_getaffinity(0))
        pick = set(allowed[(case["seed"] % max(1, len(allowed) - 1)):][: case["affinity"]]) or set(allowed[:2])
        os.sched_setaffinity(0, pick)
        ctx.count("affinity_pinned_cases")
        try:
            return _run_case(case, ctx)
        finally:
            os.sched_setaffinity(0, set(allowed))
    return _run_case(case, ctx)


def _lib_subband(case, ctx):
    """The sub-band kernel as the library drives it: every index of the channel->sub-band table must address the sample's own
    nsubs outputs (otherwise two parallel iterations write the same element / past the end), and the written file must not
    depend on the schedule."""
    import tempfile

    from sigpyproc.core import kernels as K
    from sigpyproc.readers import FilReader
    from vlib import sigfile

    rng = np.random.default_rng([case["seed"], 23])
    nch, N = case["nchans"], 64
    d = tempfile.mkdtemp(prefix="c19-", dir=ctx.tmp)
    X = rng.integers(0, 4, size=(N, nch)).astype(np.uint8)
    path = os.path.join(d, "in.fil")
    sigfile.write_fil(path, X, 8, fch1=1500.0, foff=-10.0, tsamp=1e-3)
    fil = FilReader(path)
    calls = []
    orig = K.subband

    def spy(inarray, outarray, delays, chan_to_sub, maxdelay, nchans, nsubs, nsamps):
        calls.append((np.array(chan_to_sub), int(nsubs), int(outarray.size), int(nsamps), int(maxdelay)))
        return orig(inarray, outarray, delays, chan_to_sub, maxdelay, nchans, nsubs, nsamps)

    K.subband = spy
    try:
        for nsub in range(1, nch + 1):
            ref = None
            for (t, k) in [(1, 0), (2, 1), (16, 1), (8, 0), (16, 3)]:
                calls.clear()
                ctx.evaluated(); ctx.count("kernel:lib_subband")
                one = dict(case, nsub=nsub, config=[t, k])
                out = os.path.join(d, "out.fil")
                try:
                    sched.run_config(min(t, NUMBA_THREADS), k, lambda: fil.subband(2.0, nsub, out, gulp=int(rng.choice([N, 17, 16])), quiet=True, description="v"))
                except ValueError:
                    ctx.count("lib_subband:refused")
                    break
                for c2s, ns_, osz, nsamps, md in calls:
                    if c2s.size and (c2s.max() >= ns_ or c2s.min() < 0):
                        ctx.violation("subband-table-index-outside-sample", f"Filterbank.subband(nsub={nsub}) on {nch} channels hands the kernel chan_to_sub={c2s.tolist()} with nsubs={ns_}: "
                                      f"channels mapped to index {int(c2s.max())} are added to another sample's output (owned by another parallel iteration) or past the end of the buffer", one)
                        return
                    if (nsamps - md) * ns_ > osz:
                        ctx.violation("subband-output-buffer-too-small", f"kernel writes {(nsamps - md) * ns_} elements into a buffer of {osz}", one)
                        return
                raw = open(out, "rb").read()
                if ref is None:
                    ref = raw
                elif raw != ref:
                    ctx.violation("schedule-dependent:Filterbank.subband", f"output file for nsub={nsub} differs between schedules (threads={t}, chunk={k})", one)
                    return
            ctx.nontrivial_case({"k": "lib_subband", "nch": nch, "nsub": nsub})
    finally:
        K.subband = orig


def _lib_reader_reuse(case, ctx):
    """One reader object driven at a falling, then rising number of threads: band-pass, zero-DM removal, collapse and a high-DM sub-banding
    with few wide sub-bands must give the answers of a fresh reader at one thread (per-thread scratch kept on the object, scatter updates)."""
    import tempfile

    from sigpyproc.readers import FilReader
    from vlib import sigfile

    rng = np.random.default_rng([case["seed"], 37])
    nch, N = int(case["nchans"]), 6000 + int(rng.integers(0, 64))
    d = tempfile.mkdtemp(prefix="c19r-", dir=ctx.tmp)
    X = rng.integers(0, 16, size=(N, nch)).astype(np.uint8)
    path = os.path.join(d, "in.fil")
    sigfile.write_fil(path, X, 8, fch1=400.0, foff=-1.0, tsamp=1e-3)
    kw = {"quiet": True, "description": "v"}

    def products(fil, tag, gulp):
        outz, outs = os.path.join(d, f"z{tag}.fil"), os.path.join(d, f"s{tag}.fil")
        bp = np.array(fil.bandpass(gulp=gulp, **kw).data, dtype=np.float64)
        fil.remove_zerodm(outz, gulp=gulp, **kw)
        tim = np.array(fil.collapse(gulp=gulp, **kw).data, dtype=np.float64)
        fil.subband(150.0, int(case["nsub"]), outs, gulp=4096, **kw)
        with np.errstate(all="ignore"):
            cube = np.asarray(fil.fold(0.25, 10.0, nbins=16, nints=2, nbands=int(case.get("nbands", 5)), gulp=gulp, **kw).data)
        low = np.array(fil.dedisperse(1.0, gulp=gulp, **kw).data, dtype=np.float64)       # a sweep of ~10 samples over the band: runs of channels share a delay
        outm = os.path.join(d, f"m{tag}.fil")
        mk = np.zeros(nch, dtype=bool); mk[[1, nch // 3, nch - 2]] = True
        fil.apply_channel_mask(mk, 0, outm, gulp=gulp + 7, **kw)
        masked = sigfile.parse_file(outm)[2]
        os.unlink(outm)
        res = (bp.tobytes(), sigfile.parse_file(outz)[2], tim.tobytes(), sigfile.parse_file(outs)[2], cube.tobytes(), low.tobytes(), masked)
        os.unlink(outz); os.unlink(outs)
        return res

    ref = sched.run_config(1, 0, lambda: products(FilReader(path), "ref", 1500))
    if not np.array_equal(np.frombuffer(ref[0], dtype=np.float64), X.astype(np.float64).sum(axis=0)) and \
       not np.allclose(np.frombuffer(ref[0], dtype=np.float64), X.astype(np.float64).mean(axis=0), rtol=1e-6):
        ctx.violation("wrong-result:Filterbank.bandpass", "band-pass of a fresh reader at one thread is neither the per-channel sum nor the mean", dict(case))
        return
    fil = FilReader(path)
    names = ("bandpass", "remove_zerodm", "collapse", "subband", "fold", "dedisperse", "apply_channel_mask")
    for t in (16, 8, 2, 1, 3, 12, 16, 1):
        ctx.evaluated(); ctx.count("kernel:lib_reader_reuse")
        one = dict(case, threads=t)
        try:
            got = sched.run_config(min(t, NUMBA_THREADS), 0, lambda: products(fil, str(t), 1500))
        except Exception as exc:  # noqa: BLE001
            ctx.violation(f"kernel-raised:lib_reader_reuse:{type(exc).__name__}@{exc_site(exc)}", f"threads={t}: {fmt_exc(exc)}", one)
            return
        for nm, g, r in zip(names, got, ref):
            if g != r:
                ctx.violation(f"schedule-dependent:Filterbank.{nm}:reader-reused", f"{nm} on a reader used before at other thread counts, now with {t} threads, differs from a fresh reader at one thread", one)
                return
    ctx.nontrivial_case({"k": "lib_reader_reuse", "nch": nch, "nsub": case["nsub"]})


def _lib_downsample(case, ctx):
    """Filterbank.downsample over several reads: the product must be the same file for every thread count (and the whole-file decimation)."""
    import tempfile

    from sigpyproc.readers import FilReader
    from vlib import sigfile

    rng = np.random.default_rng([case["seed"], 31])
    nch, N, tf = 8, 1000 + int(rng.integers(0, 50)), int(case["tfactor"])
    ff = int(case.get("ffactor", 1))
    big = "nchans" in case
    if big:
        nch, N = int(case["nchans"]), int(case["N"])
        ctx.count("regime:library_read_of_2^22_samples_x_channels")
    d = tempfile.mkdtemp(prefix="c19d-", dir=ctx.tmp)
    X = rng.integers(0, 200, size=(N, nch)).astype(np.uint8)
    path = os.path.join(d, "in.fil")
    sigfile.write_fil(path, X, 8, fch1=1500.0, foff=-10.0, tsamp=1e-3)
    m = N // tf
    want = np.trunc(X[: m * tf].astype(np.float64).reshape(m, tf, nch // ff, ff).mean(axis=(1, 3)))
    ref = None
    for t in ((1, 2, 4, 7, 16) if big else (1, 2, 3, 4, 6, 7, 8, 11, 12, 16)):
        for gulp in ((16384,) if big else (64, 16384)):
            ctx.evaluated(); ctx.count("kernel:lib_downsample")
            one = dict(case, config=[t, gulp])
            out = os.path.join(d, f"o{t}_{gulp}.fil")
            try:
                sched.run_config(min(t, NUMBA_THREADS), 0, lambda: FilReader(path).downsample(tf, ff, out, gulp=gulp, quiet=True, description="v"))
            except Exception as exc:  # noqa: BLE001
                ctx.violation(f"kernel-raised:lib_downsample:{type(exc).__name__}@{exc_site(exc)}", f"threads={t} gulp={gulp}: {fmt_exc(exc)}", one)
                return
            dd, hl, raw = sigfile.parse_file(out)
            if ref is None:
                ref = raw
                got = np.frombuffer(raw, dtype=np.uint8).astype(np.float64)
                if got.size != want.size or np.any(np.abs(got.reshape(want.shape) - want) >= 1.0):
                    ctx.violation("wrong-result:Filterbank.downsample", f"threads={t} gulp={gulp}: {got.size // max(1, nch // ff)} output samples for {N}/{tf}, or values off the group means", one)
                    return
            elif raw != ref:
                ctx.violation("schedule-dependent:Filterbank.downsample", f"tfactor={tf}: the product written with {t} threads (gulp {gulp}) differs from the one written with 1 thread ({len(raw)} vs {len(ref)} data bytes)", one)
                return
            os.unlink(out)
    ctx.nontrivial_case({"k": "lib_downsample", "tf": tf})


def _lib_ts_downsample(case, ctx):
    """TimeSeries.downsample / stats.downsample_1d on series of a million samples and more (where an implementation may switch to its
    multi-threaded build): the same output for every thread count, equal to the group means."""
    from sigpyproc.core import stats
    from sigpyproc.header import Header
    from sigpyproc.timeseries import TimeSeries

    rng = np.random.default_rng([case["seed"], 37])
    n, f = (1 << 20) + int(rng.integers(0, 7)), int(case["factor"])
    x = rng.integers(0, 64, size=n).astype(np.float32)
    m = n // f
    want = x[: m * f].astype(np.float64).reshape(m, f).mean(axis=1).astype(np.float32)
    hdr = Header(filename="x.tim", data_type="time series", nchans=1, foff=-1.0, fch1=1400.0, nbits=32, tsamp=1e-3, tstart=58000.0, nsamples=n)
    first = None
    for t in (1, 2, 3, 4, 8, 16):
        for which in ("TimeSeries.downsample", "stats.downsample_1d"):
            ctx.evaluated(); ctx.count("kernel:lib_ts_downsample")
            one = dict(case, config=[t, which])
            holder = {}
            call = (lambda: holder.__setitem__("o", np.asarray(TimeSeries(x, hdr).downsample(f).data))) if which.startswith("Time") else (lambda: holder.__setitem__("o", np.asarray(stats.downsample_1d(x, f))))
            try:
                sched.run_config(min(t, NUMBA_THREADS), 0, call)
            except Exception as exc:  # noqa: BLE001
                ctx.violation(f"kernel-raised:lib_ts_downsample:{type(exc).__name__}@{exc_site(exc)}", f"threads={t}: {fmt_exc(exc)}", one)
                return
            out = holder["o"]
            if out.shape != want.shape or not np.array_equal(out.astype(np.float32), want):
                nb = int(np.sum(out.astype(np.float32) != want)) if out.shape == want.shape else -1
                ctx.violation(f"wrong-result:{which}", f"threads={t}: {n} samples by {f}: {nb} of {m} outputs differ from the group means", one)
                return
    ctx.nontrivial_case({"k": "lib_ts_downsample", "f": f})


def _lib_push(case, ctx):
    """ChannelStats.push_data as the library drives it (few channels, blocks of thousands of spectra, a first and a continuation block):
    the record must be bit-identical for every thread count and its extrema must be those of the data."""
    from sigpyproc.core.stats import ChannelStats

    rng = np.random.default_rng([case["seed"], 29])
    nch, mode = case["nchans"], case["mode"]
    n1, n2 = 8192 + int(rng.integers(0, 9)), 16384
    X = (rng.integers(100, 200, size=(n1 + n2, nch))).astype(np.uint8 if case["seed"] % 2 else np.float32)
    first = None
    for (t, k) in [(1, 0), (2, 0), (3, 1), (4, 0), (8, 0), (16, 0), (16, 3), (12, 2)]:
        ctx.evaluated(); ctx.count("kernel:lib_push_data")
        one = dict(case, config=[t, k])
        holder = {}

        def call():
            cs = ChannelStats(nch, n1 + n2)
            cs.push_data(X[:n1].ravel(), 0, mode=mode)
            cs.push_data(X[n1:].ravel(), 1, mode=mode)
            holder["m"] = np.array(cs.moments, copy=True)
        try:
            sched.run_config(min(t, NUMBA_THREADS), k, call)
        except Exception as exc:  # noqa: BLE001
            ctx.violation(f"kernel-raised:lib_push_data:{type(exc).__name__}@{exc_site(exc)}", f"threads={t} chunk={k}: {fmt_exc(exc)}", one)
            return
        m = holder["m"]
        if first is None:
            first = (m.tobytes(), (t, k))
            if not (np.all(m["count"] == n1 + n2) and np.array_equal(m["min"].astype(np.float64), X.min(axis=0).astype(np.float64)) and np.array_equal(m["max"].astype(np.float64), X.max(axis=0).astype(np.float64))):
                ctx.violation("wrong-result:lib_push_data", f"threads={t}: count {m['count'][:3].tolist()} min {m['min'][:3].tolist()} max {m['max'][:3].tolist()} for {n1 + n2} samples in [{X.min()},{X.max()}]", one)
                return
        elif m.tobytes() != first[0]:
            ctx.violation("schedule-dependent:ChannelStats.push_data", f"{mode} moments of {nch} channel(s) under threads={t} chunk={k} differ from threads={first[1][0]} chunk={first[1][1]}", one)
            return
    ctx.nontrivial_case({"k": "lib_push", "nch": nch, "mode": mode})


def _run_case(case, ctx):
    import numba

    if case["kernel"] == "lib_subband":
        return _lib_subband(case, ctx)
    if case["kernel"] == "lib_push_data":
        return _lib_push(case, ctx)
    if case["kernel"] == "lib_downsample":
        return _lib_downsample(case, ctx)
    if case["kernel"] == "lib_reader_reuse":
        return _lib_reader_reuse(case, ctx)
    if case["kernel"] == "lib_ts_downsample":
        return _lib_ts_downsample(case, ctx)
    rng = np.random.default_rng([case["seed"], 19])
    cfgs = sched.configs(case["tier"])
    reps = case["reps"]
    if case["kernel"] == "probe":
        runs, wrong = sched.probe_sensitivity(cfgs, reps, rng)
        ctx.evaluated(runs)
        ctx.count("probe_runs", runs)
        ctx.count("probe_wrong", wrong)
        ctx.sample({"racy_probe": {"runs": runs, "wrong": wrong, "threads_available": int(numba.config.NUMBA_NUM_THREADS), "configs": len(cfgs), "reps": reps}})
        return
    kern, dt = case["kernel"], case["dtype"]
    ns, nch = SHAPES[case["shape"]]
    if kern in ("moments", "moments_basic") and dt == "uint8" and False:
        return
    ctx.count(f"kernel:{kern}")
    ctx.count(f"shape:{case['shape']}")
    fr = Frame(rng)
    try:
        call, getout, ref, pyfunc, pyspec = _build(kern, ns, nch, dt, rng, fr)
    except Exception as exc:  # noqa: BLE001
        ctx.violation(f"build-raised:{kern}:{type(exc).__name__}", fmt_exc(exc), case)
        return
    first = None
    digests = set()
    for (t, k) in cfgs:
        for r in range(reps):
            ctx.evaluated(); ctx.count("configs_run")
            one = dict(case, config=[t, k, r])
            try:
                sched.run_config(t, k, call)
            except Exception as exc:  # noqa: BLE001
                ctx.violation(f"kernel-raised:{kern}:{type(exc).__name__}@{exc_site(exc)}", f"threads={t} chunk={k}: {fmt_exc(exc)}", one)
                return
            out = np.array(getout(), copy=True)
            dg = sched.digest(out)
            digests.add(dg)
            if first is None:
                first = (dg, out, (t, k))
                # ---- against the definition
                if isinstance(ref, dict) and ref.get("skip_definition"):
                    pass
                elif isinstance(ref, dict):
                    tp = ref["two_pass"]
                    n = ns
                    bad = None
                    if not np.all(out["count"] == n):
                        bad = f"count {out['count'][:3].tolist()} != {n}"
                    elif not np.array_equal(out["min"].astype(np.float64), tp["min"]) or not np.array_equal(out["max"].astype(np.float64), tp["max"]):
                        bad = "min/max differ from the data"
                    elif np.any(np.abs(out["m1"] - tp["mean"]) > 1e-4 * np.maximum(1, np.abs(tp["mean"]))) or np.any(np.abs(out["m2"] - tp["m2"]) > 1e-3 * np.maximum(1, tp["m2"])):
                        bad = f"m1/m2 {out['m1'][:3].tolist()}/{out['m2'][:3].tolist()} vs two-pass {tp['mean'][:3].tolist()}/{tp['m2'][:3].tolist()}"
                    if bad:
                        ctx.violation(f"wrong-result:{kern}", f"threads={t} chunk={k}: {bad}", one)
                        return
                else:
                    got = out.astype(np.float64).ravel()
                    if got.shape != np.asarray(ref).ravel().shape or not np.array_equal(got, np.asarray(ref).ravel()):
                        nb = int(np.sum(got != np.asarray(ref).ravel())) if got.shape == np.asarray(ref).ravel().shape else -1
                        ctx.violation(f"wrong-result:{kern}", f"threads={t} chunk={k} shape=({ns},{nch}) {dt}: output differs from the definition in {nb} elements", one)
                        return
                    if leaked(out):
                        ctx.violation(f"poison-leak:{kern}", "red-zone NaN payload found in the output (out-of-bounds load)", one)
                        return
            elif dg != first[0]:
                nb = int(np.sum(out.view(np.uint8) != first[1].view(np.uint8))) if out.shape == first[1].shape else -1
                ctx.violation(f"schedule-dependent:{kern}", f"shape=({ns},{nch}) {dt}: result under threads={t} chunk={k} rep={r} differs from threads={first[2][0]} chunk={first[2][1]} ({nb} bytes)", one,
                              digests=sorted(digests))
                return
            ctx.count("canary_audits")
            bad = fr.audit()
            if bad:
                ctx.violation(f"oob-store:{kern}", f"threads={t} chunk={k}: guard zone modified: {bad}", one)
                return
    # sequential evaluation of the kernel's own Python definition (small shapes only: it is slow)
    if pyfunc is not None and ns * nch <= 2000:
        ctx.count("pyfunc_checks")
        if pyspec == "return":
            po = np.asarray(pyfunc(None))
        else:
            po = np.zeros(pyspec[0], dtype=pyspec[1])
            pyfunc(po)
        if sched.digest(po) != first[0]:
            ctx.violation(f"differs-from-py_func:{kern}", f"compiled result differs from the sequential .py_func evaluation (shape ({ns},{nch}) {dt})", case)
            return
    if ns * nch > 1:
        ctx.nontrivial_case({"k": kern, "s": case["shape"], "d": dt})
        for (t, k) in cfgs:
            ctx.nontrivial_case({"k": kern, "s": case["shape"], "d": dt, "t": t, "c": k})
    if kern in ("dedisperse", "moments") and case["shape"] in ("large", "odd"):
        ctx.sample({"kernel": kern, "shape": [ns, nch], "dtype": dt, "configs": len(cfgs), "reps": reps, "distinct_digests": len(digests), "digest": first[0]})
