"""C05 - SIGPROC headers survive encode/parse; in-place edits touch only their key."""
from __future__ import annotations

import os
import struct

import numpy as np

from vlib import sigfile
from vlib.core import exc_site, fmt_exc

PROPERTY = "C05"
LEVEL = "exploration"
CLAIM = {
    "text": "Exploration by runtime monitoring: (a) seeded random well-formed headers (any subset/order of the 22 recognised keys, extreme finite values, strings of 0..80 chars) produced by an independent encoder are parsed and re-encoded by the library and compared byte-for-byte; (b) random Header objects over all frames, all telescope/backend ids, the full sky incl. declinations in (-1,0) deg and sexagesimal carry cases are written with prep_outfile, re-read with Header.from_sigproc and compared field by field (sky position to 0.01 arcsec via astropy); (c) a full menu of (key,value) edits - valid, wrong type, out of range, longer/shorter strings, absent and unknown keys - is applied with edit_header to files with random data and the whole file is compared byte-for-byte before/after. Azimuths outside [0,360) are included. The thorough tier also runs the repository's own test-suite with parse_header/encode_header/edit_header compared against the independent parser on every call. Rounds 7-8 added: empty strings, and headers derived (prep_outfile updates, dedispersed_header) from hand-built templates whose whole numbers are Python ints. Round 9 added: a well-typed same-length edit of a present key may not be refused (whatever was refused before it), updates to zero, observatory names outside the id table. Round 10 added: text edits whose string encoding is exactly as long as the binary field of a numeric key.",
    "design_ref": "DESIGN.md section 3 (C05)",
    "note": "Trusted: struct, astropy SkyCoord/Angle for the separation oracle, vlib/sigfile.py. nbits and nchans are always present and non-zero in generated headers (the reader divides by them).",
    "technique": "runtime monitoring: byte-level encode/parse round trip, field-level object round trip with an astropy separation oracle, whole-file before/after diff for in-place edits",
}
ASSUMPTIONS = ["headers contain nbits and nchans (non-zero); all values finite; strings printable ASCII without NUL",
               "a source_name edit may store the requested string padded/truncated to the old length"]
RULE = ("(a) random key subsets/orders/values; (b) random Header objects: frame x telescope x backend x data_type x sky position classes "
        "{uniform sphere, -1<dec<0, +-0, |dec|=90, seconds >= 59.99, RA near 24h}; (c) every recognised key x value menu on files with random data. "
        "Non-trivial: (a) >= 3 keys, (b) always, (c) always; distinct by full case record.")
ALLKEYS = list(sigfile.KEY_TYPES)


SUITE_CONTRACTS = True   # thorough tier also runs the repository's own tests under vlib/suite_plugin.py
_SUITE_REQUIRED = ['suite:parse_checks', 'suite:encode_checks', 'suite:edit_checks']


def REQUIRED(tier):
    return _required(tier) + (_SUITE_REQUIRED if tier == "thorough" else [])


def _required(tier):
    return ["azimuth:outside_0_360", "angles:non_degree_unit", "edit:strings_containing_keywords", "object:after_product_at_other_depth", "bytes_roundtrips", "object_roundtrips", "edits_applied", "edits_refused_file_identical", "sky:dec_in_(-1,0)", "sky:carry_59.99",
            "frame:pulsarcentric", "frame:barycentric", "frame:topocentric", "edit:absent_key", "edit:unknown_key", "edit:wrong_type", "edit:out_of_range", "derived:from_int_typed_template", "derived:update_to_zero", "derived:telescope_not_in_id_table", "edit:wrong_type_same_encoded_length"]


def cases(tier, seed):
    na, nb, nc = (2000, 600, 6) if tier == "quick" else (50000, 10000, 60)
    for i in range(0, na, 50):
        yield {"kind": "bytes", "n": 50, "seed": int(seed) * 1000003 + i}
    for i in range(0, nb, 20):
        yield {"kind": "object", "n": 20, "seed": int(seed) * 1000003 + i}
    for i in range(nc):
        yield {"kind": "edit", "seed": int(seed) * 1000003 + i}
    for i in range(2 if tier == "quick" else 20):
        yield {"kind": "derived", "n": 16, "seed": int(seed) * 1000003 + 777 + i}


def _rand_str(rng, lo=0, hi=80):
    """Printable ASCII incl. blanks; one in four strings is blank-padded (fixed-width writers, edit_header padding)."""
    n = int(rng.integers(lo, hi + 1))
    s = "".join(chr(c) for c in rng.integers(32, 127, size=n))
    if n >= 2 and rng.random() < 0.25:
        k = int(rng.integers(1, max(2, n // 2)))
        s = (" " * k + s)[:n] if rng.random() < 0.5 else (s + " " * k)[-n:] if rng.random() < 0.3 else s[: n - k] + " " * k
    return s


def _rand_val(rng, code):
    if code == "s":
        return _rand_str(rng)
    if code == "<I":
        return int(rng.choice([0, 1, 2**31 - 1, 2**31, 2**32 - 1, int(rng.integers(0, 2**32))]))
    if code == "<b":
        return int(rng.integers(-128, 128))
    kind = rng.integers(0, 6)
    if kind == 0:
        return float(rng.normal() * 1e3)
    if kind == 1:
        return float(np.ldexp(rng.random(), int(rng.integers(-1070, 1020))) * rng.choice([-1, 1]))
    if kind == 2:
        return float(rng.choice([0.0, -0.0, 5e-324, 1.7976931348623157e308, -1.7976931348623157e308]))
    if kind == 3:
        return float(rng.integers(-10**6, 10**6)) / 7
    return float(rng.random() * 1e5)


def run_case(case, ctx):
    {"bytes": _bytes, "object": _object, "edit": _edit, "derived": _derived}[case["kind"]](case, ctx)


def _derived(case, ctx):
    """Headers derived from a hand-built one (whole numbers typed as Python ints: tstart=58000, fch1=1500, foff=-1, dm left at its default 0)
    through new_header / prep_outfile(updates=) / dedispersed_header: the file holds the values that were asked for."""
    from sigpyproc.header import Header

    rng = np.random.default_rng([case["seed"], 23])
    for j in range(case["n"]):
        ints = bool(j % 2 == 0)
        base = dict(filename="x.fil", data_type="filterbank", nchans=16, nbits=8, tsamp=0.001, nsamples=64)
        base.update(dict(tstart=58000, fch1=1500, foff=-1) if ints else dict(tstart=58000.0, fch1=1500.0, foff=-1.0))
        if j % 4 == 3:        # an observatory the SIGPROC id table does not know: the file is still a header a reader can parse
            base["telescope"] = ["FAST", "ASKAP", "uGMRT", "PARKES"][j // 4 % 4]
            ctx.count("derived:telescope_not_in_id_table")
        zero_upd = j % 8 == 5
        if zero_upd:       # the DM-0 version of data whose template carries a reference DM: a zero is a value like any other
            base["dm"] = 56.75
        hdr = Header(**base)
        upd = [{"tstart": 58000.0 + float(rng.integers(1, 64)) / 64.0}, {"foff": -0.5, "fch1": 1499.75}, {"dm": float(rng.integers(1, 4000)) / 8.0 + 0.125},
               {"tstart": 58001.53125, "foff": -0.25}][j % 4]
        if zero_upd:
            upd = {"dm": 0.0}
            ctx.count("derived:update_to_zero")
        ctx.evaluated(); ctx.count("derived_headers"); ctx.count("derived:from_int_typed_template" if ints else "derived:from_float_typed_template")
        one = {"kind": "derived", "n": case["n"], "seed": case["seed"], "j": j, "updates": upd, "int_typed": ints}
        path = os.path.join(ctx.tmp, f"dv{case['seed']}_{j}.fil")
        try:
            if "dm" in upd and j % 8 >= 4:
                w = hdr.dedispersed_header(upd["dm"]).prep_outfile(path)
            else:
                w = hdr.prep_outfile(path, updates=dict(upd))
            w.cwrite(np.zeros(16 * 4, dtype=np.uint8))
            w.close()
            d, hl, raw = sigfile.parse_file(path)
        except Exception as exc:  # noqa: BLE001
            ctx.violation(f"derived-header-raised:{type(exc).__name__}@{exc_site(exc)}", fmt_exc(exc), one)
            continue
        want = {"tstart": 58000.0, "fch1": 1500.0, "foff": -1.0, "refdm": 0.0}
        want.update({("refdm" if k == "dm" else k): v for k, v in upd.items()})
        bad = {k: (d.get(k), v) for k, v in want.items() if d.get(k) is None or abs(float(d[k]) - v) > 1e-9 * max(1.0, abs(v))}
        if bad:
            ctx.violation("derived-header-stores-another-value", f"header derived with {upd} from a template whose whole numbers are {'ints' if ints else 'floats'}: file holds {bad} (stored, requested)", one)
        else:
            ctx.nontrivial_case(one)
        os.unlink(path)


# ---------------------------------------------------------------- (a)
def _bytes(case, ctx):
    from sigpyproc.io import sigproc

    for j in ([case["only"]] if "only" in case else range(case["n"])):
        rng = np.random.default_rng([case["seed"], j])
        others = [k for k in ALLKEYS if k not in ("nbits", "nchans")]
        m = int(rng.integers(0, len(others) + 1))
        keys = list(rng.choice(others, size=m, replace=False)) + ["nbits", "nchans"]
        rng.shuffle(keys)
        items = []
        for k in keys:
            if k == "nbits":
                v = int(rng.choice([1, 2, 4, 8, 16, 32, int(rng.integers(1, 2**32))]))
            elif k == "nchans":
                v = int(rng.choice([1, 2, 1024, 2**32 - 1, int(rng.integers(1, 2**32))]))
            else:
                v = _rand_val(rng, sigfile.KEY_TYPES[k])
            items.append((str(k), v))
        hdr = sigfile.encode_header(items)
        data = rng.integers(0, 256, size=int(rng.integers(0, 64)), dtype=np.uint8).tobytes()
        path = os.path.join(ctx.tmp, "a.fil")
        with open(path, "wb") as fh:
            fh.write(hdr + data)
        ctx.evaluated()
        one = {"kind": "bytes", "n": 1, "seed": case["seed"], "only": j}
        try:
            parsed = sigproc.parse_header(path)
            again = sigproc.encode_header(parsed)
        except Exception as exc:  # noqa: BLE001
            ctx.violation(f"bytes-roundtrip-raised:{type(exc).__name__}@{exc_site(exc)}", f"{fmt_exc(exc)} on header with keys {keys}", one)
            continue
        ctx.count("bytes_roundtrips")
        if parsed.get("hdrlen") != len(hdr):
            ctx.violation("hdrlen", f"hdrlen {parsed.get('hdrlen')} != {len(hdr)}", one)
        if again != hdr:
            mine, _ = sigfile.parse_header(hdr)
            try:
                theirs, _ = sigfile.parse_header(again)
            except Exception:  # noqa: BLE001
                theirs = None
            diff = [k for (k, v) in mine if theirs is None or dict(theirs).get(k) != v or (isinstance(v, float) and struct.pack("<d", v) != struct.pack("<d", dict(theirs).get(k, 0.0)))]
            order = theirs is not None and [k for k, _ in mine] != [k for k, _ in theirs]
            ctx.violation(f"bytes-roundtrip-differs:{'order' if order else 'values:' + ','.join(sorted(set(diff)))[:60]}",
                          f"encode_header(parse_header(f)) differs from the original {len(hdr)}-byte header ({len(again)} bytes)", one, keys=keys)
        if len(items) >= 3:
            ctx.nontrivial_case(one)
        if j == 0:
            ctx.sample({"kind": "bytes", "items": [[k, v if not isinstance(v, str) else v[:20]] for k, v in items][:8], "hdrlen": len(hdr)})


# ---------------------------------------------------------------- (b)
def _sky(rng):
    """Return (ra_hours, dec_deg, class)."""
    cls = int(rng.integers(0, 8))
    if cls == 0:
        return float(rng.random() * 24), float(np.degrees(np.arcsin(rng.uniform(-1, 1)))), "uniform"
    if cls == 1:
        return float(rng.random() * 24), -float(rng.random()) * 0.999 - 1e-4, "dec_in_(-1,0)"
    if cls == 2:
        return float(rng.random() * 24), float(rng.choice([0.0, -0.0, 1e-7, -1e-7])), "dec_pm0"
    if cls == 3:
        return float(rng.random() * 24), float(rng.choice([90.0, -90.0, 89.99999, -89.99999])), "pole"
    if cls == 4:  # seconds near 60 -> carry
        h, m = int(rng.integers(0, 24)), int(rng.integers(0, 60))
        d, dm = int(rng.integers(-89, 90)), int(rng.integers(0, 60))
        s = 59.99 + float(rng.random()) * 0.00999
        sgn = -1 if (d < 0 or rng.random() < 0.3) else 1
        return h + m / 60 + s / 3600, sgn * (abs(d) + dm / 60 + s / 3600), "carry_59.99"
    if cls == 5:
        return 24 - float(rng.random()) * 1e-4, float(rng.uniform(-90, 90)), "ra_near_24h"
    if cls == 6:
        return float(int(rng.integers(0, 24))), float(int(rng.integers(-90, 91))), "integral"
    return float(rng.random() * 24), -float(rng.random()) * 1e-3, "dec_in_(-1,0)"


def _azimuth(rng, ctx):
    """Azimuth as telescopes log it: [0,360) mostly, but cable-wrap mounts record values below 0 and above 360 (finite field values are in scope)."""
    r = rng.random()
    if r < 0.7:
        return float(rng.uniform(0, 360))
    ctx.count("azimuth:outside_0_360")
    return float(rng.choice([-47.5, -0.25, 360.0, 401.125, 450.0, float(rng.uniform(-270, 0)), float(rng.uniform(360, 540))]))


def _object(case, ctx):
    from astropy import units as u
    from astropy.coordinates import Angle, SkyCoord

    from sigpyproc import params
    from sigpyproc.header import Header
    from sigpyproc.io import sigproc

    tels = list(sigproc.telescope_ids.keys())
    backs = list(sigproc.machine_ids.keys())
    dts = list(params.data_types.values())
    for j in ([case["only"]] if "only" in case else range(case["n"])):
        rng = np.random.default_rng([case["seed"], j, 7])
        ra_h, dec_d, cls = _sky(rng)
        frame = ["topocentric", "barycentric", "pulsarcentric"][int(rng.integers(0, 3))]
        nbits = int(rng.choice([1, 2, 4, 8, 16, 32]))
        fields = dict(
            filename="x.fil", data_type=str(rng.choice(dts)), nchans=int(rng.integers(1, 4097)),
            foff=float(rng.choice([-1, 1]) * rng.choice([0.1, 1 / 3, 0.390625, 4.0, float(rng.random() * 10 + 1e-3)])),
            fch1=float(rng.uniform(50, 5000)), nbits=nbits, tsamp=float(10 ** rng.uniform(-6, -1)) if j % 9 != 4 else float(rng.choice([1.0, 10.0, 16.0, 60.0, 1.5])),
            tstart=float(rng.uniform(40000, 70000)), nsamples=0, nifs=int(rng.integers(1, 5)),
            coord=SkyCoord(ra_h * u.hourangle, dec_d * u.deg), azimuth=Angle(_azimuth(rng, ctx) * u.deg),
            zenith=Angle(float(rng.uniform(0, 90)) * u.deg), telescope=str(rng.choice(tels)), backend=str(rng.choice(backs)),
            source=_rand_str(rng, 1, 30 if rng.random() < 0.8 else 120) if j % 11 != 7 else "", frame=frame, ibeam=int(rng.integers(0, 14)), nbeams=int(rng.integers(0, 14)),
            dm=float(rng.choice([0.0, float(rng.uniform(0, 3000))])), rawdatafile=_rand_str(rng, 0, 40 if rng.random() < 0.7 else 300),
        )
        urng = np.random.default_rng([case["seed"], j, 71])
        if urng.random() < 0.3:   # the same pointing angles held in another angular unit (an Angle is a quantity, not a number of degrees)
            unit = [u.rad, u.hourangle, u.arcmin][int(urng.integers(0, 3))]
            fields["azimuth"] = fields["azimuth"].to(unit)
            fields["zenith"] = fields["zenith"].to(unit)
            ctx.count("angles:non_degree_unit")
        ctx.evaluated()
        ctx.count(f"sky:{cls}")
        ctx.count(f"frame:{frame}")
        one = {"kind": "object", "n": 1, "seed": case["seed"], "only": j}
        path = os.path.join(ctx.tmp, "b.fil")
        try:
            hdr = Header(**fields)
            if j % 5 == 2:
                # an earlier product of the same process was written at another depth through the nbits option
                other = os.path.join(ctx.tmp, "other_depth.fil")
                hdr.prep_outfile(other, nbits=8 if nbits != 8 else 32).close()
                ctx.count("object:after_product_at_other_depth")
            fw = hdr.prep_outfile(path)
            fw.close()
            back = Header.from_sigproc(path)
        except Exception as exc:  # noqa: BLE001
            ctx.violation(f"object-roundtrip-raised:{type(exc).__name__}@{exc_site(exc)}[{cls}]", f"{fmt_exc(exc)} (ra={ra_h}h dec={dec_d}d)", one)
            continue
        ctx.count("object_roundtrips")
        bad = []
        for k in ("nchans", "nbits", "nifs", "ibeam", "nbeams", "telescope", "backend", "source", "frame", "data_type", "rawdatafile"):
            if getattr(back, k) != fields[k]:
                bad.append((k, fields[k], getattr(back, k)))
        for k in ("foff", "fch1", "tsamp", "tstart", "dm"):
            if getattr(back, k) != fields[k]:
                bad.append((k, fields[k], getattr(back, k)))
        for k in ("azimuth", "zenith"):
            if abs(getattr(back, k).deg - fields[k].deg) > 1e-9:
                bad.append((k, fields[k].deg, getattr(back, k).deg))
        sep = back.coord.separation(fields["coord"]).arcsec
        for k, w, g in bad:
            extra = f"[{fields['frame']}]" if k == "frame" else ""
            ctx.violation(f"field-not-preserved:{k}{extra}", f"{k}: wrote {w!r}, read back {g!r}", one)
        if not (sep <= 0.01):
            reg = "-1<dec<0" if -1 < dec_d < 0 else cls
            ctx.violation(f"sky-position[{reg}]", f"position moved by {sep:.4f} arcsec: wrote ra={ra_h!r}h dec={dec_d!r}d read {back.coord.ra.hour!r}h {back.coord.dec.deg!r}d", one,
                          dec_sign_flipped=bool(np.sign(back.coord.dec.deg) != np.sign(dec_d) and abs(dec_d) > 1e-6))
        ctx.nontrivial_case(one)
        if j == 0:
            ctx.sample({"kind": "object", "ra_h": ra_h, "dec_d": dec_d, "class": cls, "frame": frame, "sep_arcsec": float(sep)})


# ---------------------------------------------------------------- (c)
def _edit(case, ctx):
    from sigpyproc.io import sigproc

    rng = np.random.default_rng([case["seed"], 11])
    present = [k for k in ALLKEYS if k in ("nbits", "nchans") or rng.random() < 0.75]
    rng.shuffle(present)
    names_inside = bool(case["seed"] % 3 == 1)
    if names_inside:
        # strings that happen to contain header keywords (an archive path built from the observing set-up), stored before those keywords
        present = [k for k in present if k not in ("rawdatafile", "source_name")]
        present = ["rawdatafile", "source_name"] + present
        ctx.count("edit:strings_containing_keywords")
    items = []
    for k in present:
        if k == "nbits":
            v = int(rng.choice([1, 2, 4, 8, 16, 32]))
        elif k == "nchans":
            v = int(rng.integers(1, 64))
        elif names_inside and k == "rawdatafile":
            v = "/archive/P999/nbits8_tsamp64us_nchans1024/fch1_1500/foff-1/tstart58000/refdm0/ibeam03.raw"
        elif names_inside and k == "source_name":
            v = "src_raj0437_src_dej-4715_nifs1"
        elif k == "source_name":
            v = _rand_str(rng, 3, 20)
        else:
            v = _rand_val(rng, sigfile.KEY_TYPES[k])
        items.append((k, v))
    hdr = sigfile.encode_header(items)
    data = rng.integers(0, 256, size=int(rng.integers(1, 300)), dtype=np.uint8).tobytes()
    path = os.path.join(ctx.tmp, "c.fil")
    menu = []
    for k in ALLKEYS + ["nsamples", "bogus_key", ""]:
        code = sigfile.KEY_TYPES.get(k)
        if code == "s":
            old = dict(items).get(k, "")
            vals = [("valid-samelen", "Z" * len(old)), ("longer", old + "xx"), ("shorter", old[:-1] if old else "q"), ("wrong_type", 12345), ("wrong_type", 1.5), ("empty", "")]
        elif code == "<I":
            vals = [("valid", int(rng.integers(0, 2**32))), ("valid", 0), ("out_of_range", -1), ("out_of_range", 2**32), ("wrong_type", "abc"), ("wrong_type", 2.5), ("wrong_type", None),
                    # text whose string encoding (4-byte length + characters) happens to be as long as the binary field
                    ("wrong_type_same_encoded_length", ""), ("wrong_type", "1024")]
        elif code == "<b":
            vals = [("valid", int(rng.integers(-128, 128))), ("out_of_range", 128), ("out_of_range", -129), ("wrong_type", "x"), ("wrong_type", 0.5)]
        elif code == "<d":
            vals = [("valid", _rand_val(rng, "<d")), ("valid", int(rng.integers(-100, 100))), ("wrong_type", "1.0"), ("wrong_type", None), ("wrong_type", [1.0]),
                    ("wrong_type_same_encoded_length", "1400"), ("wrong_type_same_encoded_length", "1e-4"), ("wrong_type", ""), ("wrong_type", "56.75000")]
        else:
            vals = [("unknown_key", 1), ("unknown_key", "x")]
        for cls, v in vals:
            menu.append((k, cls, v))
    for k, cls, v in menu:
        with open(path, "wb") as fh:
            fh.write(hdr + data)
        before = hdr + data
        ctx.evaluated()
        absent = k in sigfile.KEY_TYPES and k not in dict(items)
        if absent:
            ctx.count("edit:absent_key")
        ctx.count(f"edit:{cls}")
        one = {"kind": "edit", "seed": case["seed"], "key": k, "cls": cls, "value": repr(v)}
        err = None
        try:
            sigproc.edit_header(path, k, v)
        except Exception as exc:  # noqa: BLE001
            err = exc
        with open(path, "rb") as fh:
            after = fh.read()
        lab = f"{k if k in sigfile.KEY_TYPES else 'unknown'}:{cls}{':absent' if absent else ''}"
        if err is not None:
            if after != before:
                ctx.violation(f"edit-raised-but-file-changed:{lab}", f"edit_header({k!r},{v!r}) raised {fmt_exc(err)} but the file changed", one)
            elif cls.startswith("valid") and not absent and k in sigfile.KEY_TYPES:
                # a well-typed, in-range, same-length value for a key the file holds is an edit that must be applied (whatever was refused before it)
                ctx.violation(f"valid-edit-refused:{k}:{type(err).__name__}@{exc_site(err)}", f"edit_header({k!r},{v!r}) raised {fmt_exc(err)}", one)
            else:
                ctx.count("edits_refused_file_identical")
            ctx.nontrivial_case(one)
            continue
        ctx.count("edits_applied")
        if len(after) != len(before):
            ctx.violation(f"edit-changed-length:{lab}", f"file length {len(before)} -> {len(after)}", one)
            continue
        try:
            new_items, new_hl = sigfile.parse_header(after)
        except Exception as exc:  # noqa: BLE001
            ctx.violation(f"edit-corrupted-header:{lab}", f"header unparseable after edit: {exc}", one)
            continue
        if new_hl != len(hdr) or after[new_hl:] != data:
            ctx.violation(f"edit-touched-data:{lab}", f"header length {len(hdr)} -> {new_hl} or data bytes changed", one)
            continue
        changed = [kk for (kk, vv), (k2, v2) in zip(items, new_items) if kk != k2 or struct.pack(sigfile.KEY_TYPES[kk], vv) != struct.pack(sigfile.KEY_TYPES[k2], v2)] if all(sigfile.KEY_TYPES[a] != "s" for a, _ in items) else \
                  [kk for (kk, vv), (k2, v2) in zip(items, new_items) if kk != k2 or vv != v2]
        if [a for a, _ in items] != [a for a, _ in new_items]:
            ctx.violation(f"edit-reordered-keys:{lab}", "key sequence changed", one)
            continue
        others = [c for c in changed if c != k]
        if others:
            ctx.violation(f"edit-touched-other-keys:{lab}", f"editing {k!r} also changed {others}", one)
            continue
        newv = dict(new_items).get(k)
        try:
            lib = sigproc.parse_header(path)   # no stale cached header after an in-place edit
        except ZeroDivisionError:
            lib = {}                           # nbits or nchans edited to 0: the sample count is undefined, not our subject
            ctx.count("edit:zero_nbits_or_nchans")
        if k in lib and k in dict(new_items) and lib[k] != newv and not (isinstance(newv, float) and newv != newv):
            ctx.violation(f"parse-after-edit-stale:{lab}", f"after edit_header the file holds {k}={newv!r} but parse_header returns {lib[k]!r}", one)
            continue
        if cls.startswith("valid") and k in dict(items):
            want = v
            okv = (newv == want) or (isinstance(want, str) and isinstance(newv, str) and newv.rstrip(" ") == want[: len(dict(items)[k])].rstrip(" "))
            if not okv:
                ctx.violation(f"edit-wrong-value:{lab}", f"asked {want!r}, file now holds {newv!r}", one)
        if cls in ("wrong_type", "wrong_type_same_encoded_length", "out_of_range", "unknown_key") and after != before:
            ctx.count("lenient_edit_applied:" + cls)
            # an edit that is accepted must store what was asked for (2.5 is not 2): refusing is the other legitimate outcome
            try:
                same = (newv == v) or (isinstance(v, (int, float)) and not isinstance(v, bool) and isinstance(newv, (int, float)) and float(newv) == float(v))
            except Exception:  # noqa: BLE001
                same = False
            if not same:
                ctx.violation(f"edit-stored-another-value:{lab}", f"edit_header({k!r}, {v!r}) returned normally but the file now holds {newv!r}", one)
                continue
        ctx.nontrivial_case(one)
    ctx.sample({"kind": "edit", "keys_present": [k for k, _ in items][:10], "menu_size": len(menu), "data_bytes": len(data)})
