"""C02 - a multi-file stream reads as the concatenation of its data sections.

History + executable model: the model is the bytes of the joined data
sections plus an integer position.  Every FileReader operation is executed
on the real reader and on the model; results and cur_data_pos_stream are
compared after every operation.
"""
from __future__ import annotations

import itertools
import os

import numpy as np

from vlib import sigfile
from vlib.core import exc_site, fmt_exc

PROPERTY = "C02"
LEVEL = "exploration"
CLAIM = {
    "text": "Exploration by runtime monitoring with an executable sequential model: all operation sequences up to a depth bound (quick 3, thorough 4) over {seek(o,0), seek(d,1), cread(n), creadinto(n)} on three tiny multi-file 8-bit streams, seeded random histories (length 40/200) over 1-3 files at every depth, and every (start,nsamps) pair for read_block, each compared step by step with a bytes model (content, count, position, raise/no-raise). Held = no divergence on the histories listed in the evidence. Streams include 'ragged' members (a data section ending in an incomplete sample: whole stray items before the next file). The thorough tier also runs the repository's own test-suite with a byte-array shadow model attached to every FileReader (position and content after every seek/cread/creadinto). Rounds 7-8 added: histories that go on after a refused over-long counted read (absolute seek, then further operations), a second reader on the same files used in turn and closed mid-history, and read_block repeated after the caller overwrote the block it was given. Round 9 added: a block requested right after a plan that followed the preceding block, and creadinto into equally long slices of one staging buffer.",
    "design_ref": "DESIGN.md section 3 (C02)",
    "note": "Trusted: CPython bytes/int semantics as the model, vlib/sigfile.py encoder. A seek to exactly end-of-stream and nsamps=0 are unspecified by the statement and accepted either way (counted). A history ends at the first operation that is required to raise.",
    "technique": "runtime monitoring: operation-history replay against an executable byte-array model (lattice + random)",
}
ASSUMPTIONS = [
    "seek to exactly end-of-stream: either ValueError (position unchanged) or position == end accepted",
    "nsamps == 0 in read_block: either outcome accepted",
    "reader state after an operation that must raise is not judged (history ends there)",
    "at 16/32-bit depths seeks and buffer sizes are multiples of the item size (an item never straddles a file boundary in a well-formed set)",
]
RULE = (
    "lattice: every op sequence of length <= L (quick L=3, thorough L=4) over the position-dependent alphabet "
    "{seek(o,0) o in 0..T, seek(d,1) with 0<=pos+d<=T, cread(n) n in 0..T+1, creadinto(n) n in 0..T+1} on 8-bit nchans=1 streams "
    "with data-section lengths (4),(1,3),(2,1,2); random: seeded histories over 1-3 files at depths 1,2,4,8,16,32 with differing "
    "header lengths; read_block: all start in -2..N+1 x nsamps in -1..N+2. Non-trivial = the history touches >= 2 files or an "
    "operation crosses a file boundary; distinct = distinct (stream, op list)."
)
TINY = ((4,), (1, 3), (2, 1, 2))
DEPTHS = (1, 2, 4, 8, 16, 32)


SUITE_CONTRACTS = True   # thorough tier also runs the repository's own tests under vlib/suite_plugin.py
_SUITE_REQUIRED = ['suite:cread_checks', 'suite:creadinto_checks', 'suite:position_checks', 'suite:multi_file_readers']


def REQUIRED(tier):
    return _required(tier) + (_SUITE_REQUIRED if tier == "thorough" else [])


def _required(tier):
    return ["ops:seek_set", "ops:seek_cur", "ops:cread", "ops:creadinto", "position_checks", "content_checks",
            "regime:read_spans_two_boundaries", "regime:seek_back_over_boundary", "regime:creadinto_hits_end",
            "regime:cread_past_end_raises", "regime:absolute_seek_after_refused_cread", "regime:second_reader_interleaved", "read_block:same_request_after_in_place_edit", "read_block:continuing_after_a_plan", "creadinto:slices_of_one_staging_buffer", "regime:position_exactly_at_boundary", "read_block:in_range", "read_block:rejected", "regime:member_file_with_trailing_partial_sample", "regime:file_listed_twice", "regime:relative_names_then_chdir", "giant_stream_ops", "regime:members_not_in_time_order", "ops:seek_by_one_header_length"]


def EXHAUSTIVE(tier):
    return True  # the lattice part is enumerated completely at the stated depth bound


def cases(tier, seed):
    L = 3 if tier == "quick" else 4
    for si, split in enumerate(TINY):
        T = sum(split)
        nfirst = (T + 1) + (T + 1) + 2 * (T + 2)
        for first in range(nfirst):
            yield {"kind": "lattice", "split": list(split), "L": L, "first": first}
    rng = np.random.default_rng([seed, 202])
    nhist, hlen = (320, 40) if tier == "quick" else (5000, 200)
    for k in range(nhist // 8):
        nbits = int(DEPTHS[k % 6])
        nch = sigfile.legal_nchans(nbits, int(rng.integers(1, 9)))
        nfiles = int(rng.integers(1, 4))
        if k % 3 == 2:     # "ragged" needs a sample wider than one item and a file to follow
            nch = sigfile.legal_nchans(nbits, 2 * max(1, 8 // nbits) + int(rng.integers(0, 7)))
            nfiles = max(nfiles, 2)
        if k % 5 == 4:     # the non-contiguous sets are multi-file sets (their members need not be in time order)
            nfiles = max(nfiles, 2)
        if k % 7 == 5:     # a duplicated member needs nothing; keep at least one distinct neighbour half of the time
            nfiles = max(nfiles, 1 + k % 2)
        split = [int(rng.integers(1, 20)) for _ in range(nfiles)]
        if k % 8 == 6:     # data sections longer than a header (so that "one header length ahead" is a position inside the data)
            split = [int(rng.integers(150, 400)) for _ in range(nfiles)]
        yield {"kind": "random", "nbits": nbits, "nchans": nch, "split": split, "hseed": int(seed) * 100003 + k, "n": 8, "len": hlen,
               "contig": bool(k % 5 != 4), "ragged": k % 3 == 2, "dup": k % 7 == 5, "relchdir": k % 7 == 3}
    yield {"kind": "giant", "seed": int(seed)}
    for nbits in DEPTHS:
        for split in ([9], [4, 5], [2, 3, 4]):
            yield {"kind": "read_block", "nbits": nbits, "nchans": sigfile.legal_nchans(nbits, 2), "split": split, "dseed": int(seed)}


# --------------------------------------------------------------------------
def _mk_stream(ctx, nbits, nchans, split, dseed, contig=True, ragged=False):
    """split in samples per file.  Returns (paths, model bytes, byte boundaries, X).

    ragged: every file but the last carries a trailing incomplete sample (whole items, fewer than one sample): the property
    ranges over arbitrary per-file lengths and the stream is the files' data sections - all of their bytes - joined end to end."""
    key = ("s", nbits, nchans, tuple(split), dseed, contig, ragged)
    cache = ctx.notes.setdefault("_cache", {})
    if key in cache:
        return cache[key]
    if len(cache) > 30:
        cache.clear()
    N = sum(split)
    rng = np.random.default_rng([dseed, nbits, nchans, N])
    if nbits == 8:
        X = ((np.arange(N * nchans) % 128) + 128).astype(np.uint8).reshape(N, nchans)  # top bit set, counter pattern
    elif nbits == 16:
        X = ((np.arange(N * nchans) * 257 + 0x8080) % 65536).astype(np.uint16).reshape(N, nchans)
    elif nbits == 32:
        X = (np.arange(N * nchans) + 0.5).astype(np.float32).reshape(N, nchans)
    else:
        X = sigfile.random_samples(rng, N, nchans, nbits)
    d = os.path.join(ctx.tmp, f"s{len(os.listdir(ctx.tmp))}")
    os.makedirs(d)
    if contig:
        paths = sigfile.write_split(d, X, nbits, split)
    else:
        paths, pos = [], 0
        for i, n in enumerate(split):
            p = os.path.join(d, f"in_{i}.fil")
            # members of a non-contiguous set are not necessarily listed in time order: list order defines the stream
            sigfile.write_fil(p, X[pos : pos + n], nbits, tstart=58000.0 + 0.25 * ((len(split) - i) if dseed % 2 else i), rawdatafile="q" * (2 * i + 1))
            paths.append(p)
            pos += n
    if ragged:
        isz = {16: 2, 32: 4}.get(nbits, 1)
        stride = nchans * nbits // 8
        for i, p in enumerate(paths[:-1]):
            nstray = (1 + (dseed + i) % max(1, stride // isz - 1)) * isz
            if nstray < stride:
                with open(p, "ab") as fh:
                    fh.write(bytes((0xA0 + 7 * i + j) % 256 for j in range(nstray)))
    model = b"".join(sigfile.parse_file(p)[2] for p in paths)
    assert ragged or model == sigfile.encode_data(X, nbits)
    lens = [len(sigfile.parse_file(p)[2]) for p in paths]
    bounds = np.cumsum(lens)[:-1].tolist()
    cache[key] = (paths, model, bounds, X)
    return cache[key]


def _open_reader(paths, nbits, contig=True):
    from sigpyproc.header import Header
    from sigpyproc.io.fileio import FileReader

    hdr = Header.from_sigproc(paths if len(paths) > 1 else paths[0], check_contiguity=contig)
    return hdr, FileReader(hdr.stream_info, mode="r", nbits=nbits)


def _alphabet(T, pos):
    ops = [("ss", o) for o in range(T + 1)]
    ops += [("sc", d) for d in range(-pos, T - pos + 1)]
    ops += [("cr", n) for n in range(T + 2)]
    ops += [("ci", n) for n in range(T + 2)]
    return ops


def run_history(ctx, hdr_sinfo, nbits, model, bounds, ops, case_rec):
    """Execute ops on a fresh FileReader and on the model. ops: list of (name, arg). Returns False if violated."""
    from sigpyproc.io.fileio import FileReader

    T = len(model)
    per = 8 // nbits if nbits in (1, 2, 4) else 1
    isz = {16: 2, 32: 4}.get(nbits, 1)
    rd = FileReader(hdr_sinfo, mode="r", nbits=nbits)
    pos = 0
    touched = set()
    crossing = False
    held = []
    ctx.evaluated()

    def fileof(p):
        return int(np.searchsorted(bounds, p, side="right"))

    def viol(mech, what, **kw):
        ctx.violation(mech, what, case_rec, **kw)
        rd.close()
        return False

    try:
        after_raise = False
        rd2 = None
        stage = None
        for step, (name, arg) in enumerate(ops):
            if step % 5 == 2 and T >= 2 * isz and len(ops) > 6:
                # a second reader on the same files, alive at the same time and used in turn: each has its own position (and its own open files)
                ctx.count("regime:second_reader_interleaved")
                if rd2 is None:
                    rd2 = FileReader(hdr_sinfo, mode="r", nbits=nbits)
                o2 = ((step * 7919) % (T // isz)) * isz
                n2 = min(3, (T - o2) // isz)
                rd2.seek(o2, 0)
                got2 = np.asarray(rd2.cread(n2 * per)).tobytes()
                seg2 = model[o2 : o2 + n2 * isz]
                want2 = sigfile.unpack_bits(seg2, nbits, sigfile.default_order(nbits)).tobytes() if per > 1 else seg2
                if got2 != want2:
                    return viol("second-reader-content", f"step {step}: a second reader on the same files read {got2[:16].hex()} at {o2}, want {want2[:16].hex()}")
                if step % 10 == 7:
                    rd2.close()       # closing one reader must not close the other's files
                    rd2 = None
            if after_raise:
                # a refused counted read leaves the position unspecified; an absolute in-range seek defines it again and the reader must go on working
                if name != "ss" or arg >= T:
                    break
                after_raise = False
                ctx.count("regime:absolute_seek_after_refused_cread")
            if name in ("ss", "sc"):
                tgt = arg if name == "ss" else pos + arg
                if tgt < 0 or tgt > T:
                    # only reachable after an (unspecified) seek-to-end that the reader refused: out of the stated domain
                    ctx.skip("seek target outside [0,T] after refused seek-to-end")
                    break
                ctx.count("ops:seek_set" if name == "ss" else "ops:seek_cur")
                try:
                    rd.seek(arg, 0 if name == "ss" else 1)
                    raised = None
                except Exception as exc:  # noqa: BLE001
                    raised = exc
                if tgt == T:
                    ctx.count("unspecified:seek_to_end")
                    if raised is None:
                        pos = T
                    elif not isinstance(raised, ValueError):
                        return viol(f"seek-end:{type(raised).__name__}", f"step {step}: seek to end raised {fmt_exc(raised)}")
                elif raised is not None:
                    return viol(f"inrange-seek-raised:{name}:{type(raised).__name__}@{exc_site(raised)}",
                                f"step {step}: in-range {name}({arg}) from {pos} raised {fmt_exc(raised)}")
                else:
                    if name == "sc" and arg < 0 and fileof(tgt) < fileof(min(pos, T - 1)):
                        ctx.count("regime:seek_back_over_boundary")
                    pos = tgt
            elif name == "cr":
                ctx.count("ops:cread")
                nbytes = arg * isz  # arg counts file items (bytes for <=8 bit)
                try:
                    out = rd.cread(arg * per)
                    raised = None
                except Exception as exc:  # noqa: BLE001
                    raised = exc
                if pos + nbytes > T:
                    if raised is None:
                        return viol("cread-past-end-no-raise", f"step {step}: cread of {nbytes} bytes at {pos} (stream {T}) returned {len(out)} values instead of raising")
                    ctx.count("regime:cread_past_end_raises")
                    after_raise = True   # state right after a required raise is not judged
                    continue
                if raised is not None:
                    return viol(f"inrange-cread-raised:{type(raised).__name__}@{exc_site(raised)}", f"step {step}: cread({arg}) at {pos} raised {fmt_exc(raised)}")
                seg = model[pos : pos + nbytes]
                want = sigfile.unpack_bits(seg, nbits, sigfile.default_order(nbits)).tobytes() if per > 1 else seg
                ctx.count("content_checks")
                held.append((out, want))
                if np.asarray(out).tobytes() != want or (per == 1 and np.asarray(out).dtype.itemsize != isz):
                    return viol("cread-content", f"step {step}: cread({arg}) at {pos} returned {np.asarray(out).tobytes()[:24].hex()} want {want[:24].hex()}",
                                got_len=int(np.asarray(out).size), want_len=len(want) // (isz if per == 1 else 1))
                if nbytes:
                    f0, f1 = fileof(pos), fileof(pos + nbytes - 1)
                    touched.update(range(f0, f1 + 1))
                    if f1 > f0:
                        crossing = True
                    if f1 - f0 >= 2:
                        ctx.count("regime:read_spans_two_boundaries")
                pos += nbytes
            elif name == "ci":
                ctx.count("ops:creadinto")
                buf = bytearray(b"\x5a" * arg)
                ubuf = bytearray(b"\x5a" * (arg * per)) if per > 1 else None
                if step % 2 and arg:
                    # block-by-block filling of one staging buffer: equally long slices of the same buffers at different offsets
                    if stage is None or len(stage[0]) < 3 * arg:
                        stage = (bytearray(3 * arg + 64), bytearray((3 * arg + 64) * per))
                    off = (step // 2 % 3) * arg
                    stage[0][off : off + arg] = b"\x5a" * arg
                    stage[1][off * per : (off + arg) * per] = b"\x5a" * (arg * per)
                    buf = memoryview(stage[0])[off : off + arg]
                    ubuf = memoryview(stage[1])[off * per : (off + arg) * per] if per > 1 else None
                    ctx.count("creadinto:slices_of_one_staging_buffer")
                try:
                    n = rd.creadinto(buf, ubuf)
                    raised = None
                except Exception as exc:  # noqa: BLE001
                    raised = exc
                if raised is not None:
                    return viol(f"creadinto-raised:{type(raised).__name__}@{exc_site(raised)}", f"step {step}: creadinto({arg}) at {pos} raised {fmt_exc(raised)}")
                avail = min(arg, T - pos)
                if avail < arg:
                    ctx.count("regime:creadinto_hits_end")
                if n != avail:
                    return viol("creadinto-count", f"step {step}: creadinto({arg}) at {pos} of {T} returned {n}, {avail} bytes exist")
                ctx.count("content_checks")
                if bytes(buf[:n]) != model[pos : pos + n]:
                    return viol("creadinto-content", f"step {step}: creadinto({arg}) at {pos}: {bytes(buf[:n])[:24].hex()} want {model[pos:pos+n][:24].hex()}")
                if bytes(buf[n:]) != b"\x5a" * (arg - n):
                    return viol("creadinto-wrote-past-count", f"step {step}: buffer modified beyond the {n} bytes reported")
                if per > 1 and bytes(ubuf[: n * per]) != sigfile.unpack_bits(model[pos : pos + n], nbits, sigfile.default_order(nbits)).tobytes():
                    return viol("creadinto-unpacked-content", f"step {step}: unpack buffer differs from unpacked model slice")
                if n:
                    f0, f1 = fileof(pos), fileof(pos + n - 1)
                    touched.update(range(f0, f1 + 1))
                    if f1 > f0:
                        crossing = True
                    if f1 - f0 >= 2:
                        ctx.count("regime:read_spans_two_boundaries")
                pos += n
            # position after every operation
            got = rd.cur_data_pos_stream
            ctx.count("position_checks")
            if pos in bounds:
                ctx.count("regime:position_exactly_at_boundary")
            if got != pos:
                return viol(f"position-after-{name}", f"step {step}: after {name}({arg}) reader reports position {got}, model {pos}", ops_done=step + 1)
        # arrays returned by earlier counted reads are the caller's: later reads must not have changed them
        ctx.count("held_result_checks", len(held))
        for i, (arr, wantb) in enumerate(held):
            if np.asarray(arr).tobytes() != wantb:
                return viol("cread-result-changed-by-later-reads", f"the array returned by counted read #{i} of this history no longer holds its slice of the stream after later reads")
    finally:
        for r_ in (rd, rd2):
            try:
                if r_ is not None:
                    r_.close()
            except Exception:  # noqa: BLE001
                pass
    if len(touched) >= 2 or crossing:
        ctx.nontrivial_case(case_rec)
    return True


def _giant(case, ctx):
    """A two-file stream of 2.4 GiB (sparse files): offsets, positions and reads beyond 2**31 bytes and in the second member."""
    from sigpyproc.header import Header
    from sigpyproc.io.fileio import FileReader
    from sigpyproc.readers import FilReader

    nch = 64
    lens = [1288490188 // nch * nch, 1288490188 // nch * nch + 7 * nch]
    d = os.path.join(ctx.tmp, "giant")
    os.makedirs(d, exist_ok=True)
    rng = np.random.default_rng([case["seed"], 2021])
    marks = {}   # stream offset -> bytes
    paths = []
    base = 0
    for i, L in enumerate(lens):
        p = os.path.join(d, f"g{i}.fil")
        hdr = sigfile.encode_header(sigfile.std_items(nchans=nch, nbits=8, tstart=58000.0 + i, rawdatafile="g" * (i + 1)))
        with open(p, "wb") as fh:
            fh.write(hdr)
            fh.truncate(len(hdr) + L)
            for off in ([0, L // 2 // nch * nch, L - 128] + ([(1 << 31) - 64 - base] if base < (1 << 31) < base + L else [])):
                blob = rng.integers(1, 255, size=128, dtype=np.uint8).tobytes()
                fh.seek(len(hdr) + off)
                fh.write(blob)
                marks[base + off] = blob
        paths.append(p)
        base += L
    total = sum(lens)
    one = dict(case)

    def model(off, n):
        out = bytearray(n)
        for mo, blob in marks.items():
            lo, hi = max(off, mo), min(off + n, mo + len(blob))
            if lo < hi:
                out[lo - off : hi - off] = blob[lo - mo : hi - mo]
        return bytes(out)

    try:
        hdr = Header.from_sigproc(paths, check_contiguity=False)
        rd = FileReader(hdr.stream_info, mode="r", nbits=8)
        for off in sorted(marks) + [lens[0] - 5, (1 << 31) - 3, total - 128]:
            for n in (128, 37):
                if off + n > total:
                    continue
                ctx.evaluated(); ctx.count("giant_stream_ops")
                rd.seek(off, 0)
                if rd.cur_data_pos_stream != off:
                    ctx.violation("position-after-ss[stream>2GiB]", f"after seek({off},0) the reader reports position {rd.cur_data_pos_stream}", one); return
                got = rd.cread(n).tobytes()
                if got != model(off, n):
                    ctx.violation("cread-content[stream>2GiB]", f"cread({n}) at stream byte {off} of a {total}-byte two-file stream differs from the files' bytes", one); return
                if off + n < total and rd.cur_data_pos_stream != off + n:
                    ctx.violation("position-after-cr[stream>2GiB]", f"after cread({n}) at {off} the reader reports {rd.cur_data_pos_stream}", one); return
                rd.seek(off, 0); rd.seek(8, 1)
                if rd.cur_data_pos_stream != off + 8:
                    ctx.violation("position-after-sc[stream>2GiB]", f"seek({off},0); seek(8,1) -> position {rd.cur_data_pos_stream}", one); return
                buf = bytearray(n)
                rd.seek(off, 0)
                k = rd.creadinto(buf)
                if k != n or bytes(buf) != model(off, n):
                    ctx.violation("creadinto-content[stream>2GiB]", f"creadinto({n}) at stream byte {off} returned {k} bytes / other content", one); return
        rd.close()
        fil = FilReader(paths, check_contiguity=False)
        for off in sorted(marks):
            st = off // nch
            ctx.evaluated(); ctx.count("giant_stream_ops")
            blk = fil.read_block(st, 2)
            want = np.frombuffer(model(st * nch, 2 * nch), dtype=np.uint8).reshape(2, nch)
            if not np.array_equal(blk.data.T.astype(np.uint8), want):
                ctx.violation("read_block-content[stream>2GiB]", f"read_block({st},2) of a {total}-byte two-file stream differs from the files' bytes", one); return
        ctx.nontrivial_case(one)
    except Exception as exc:  # noqa: BLE001
        ctx.violation(f"raised[stream>2GiB]:{type(exc).__name__}@{exc_site(exc)}", fmt_exc(exc), one)
    finally:
        for p in paths:
            if os.path.exists(p):
                os.unlink(p)


def run_case(case, ctx):
    if case["kind"] == "giant":
        return _giant(case, ctx)
    kind = case["kind"]
    if kind in ("lattice", "history"):
        split = case["split"]
        nbits, nch = case.get("nbits", 8), case.get("nchans", 1)
        paths, model, bounds, X = _mk_stream(ctx, nbits, nch, split, case.get("dseed", 0), case.get("contig", True), case.get("ragged", False))
        hdr, rd0 = _open_reader(paths, nbits, case.get("contig", True))
        rd0.close()
        sinfo = hdr.stream_info
        T = len(model)
        if kind == "history":
            run_history(ctx, sinfo, nbits, model, bounds, [tuple(o) for o in case["ops"]], case)
            return
        L = case["L"]

        def model_pos(pos, op):
            name, arg = op
            if name == "ss":
                return arg
            if name == "sc":
                return pos + arg
            isz = 1
            if name == "cr":
                return pos + arg * isz if pos + arg * isz <= T else None
            return pos + min(arg, T - pos)

        def rec(prefix, pos, depth):
            rec_case = {"kind": "history", "split": split, "ops": [list(o) for o in prefix]}
            if prefix:
                ok = run_history(ctx, sinfo, nbits, model, bounds, prefix, rec_case)
                if not ok:
                    return
            if depth == L or pos is None:
                return
            for op in _alphabet(T, pos):
                rec(prefix + [op], model_pos(pos, op), depth + 1)

        first = _alphabet(T, 0)[case["first"]]
        # note: run only maximal sequences' prefixes once - prefixes are cheap and re-checked, fine
        rec([first], model_pos(0, first), 1)
        if ctx.evaluations % 7 == 0:
            ctx.sample({"stream_data_lengths": split, "example_history": [list(first)], "depth_bound": L})
        return
    if kind == "random":
        nbits, nch, split = case["nbits"], case["nchans"], case["split"]
        paths, model, bounds, X = _mk_stream(ctx, nbits, nch, split, case["hseed"], case["contig"], case.get("ragged", False))
        if case.get("ragged") and len(model) != len(sigfile.encode_data(X, nbits)):
            ctx.count("regime:member_file_with_trailing_partial_sample")
        contig = case["contig"]
        if not contig and case["hseed"] % 2 and len(paths) > 1:
            ctx.count("regime:members_not_in_time_order")
        if case.get("dup") and len(paths) >= 1:
            # the same file listed more than once is still a list of files: the stream is their data sections in list order
            order = [[0, 0], [0, 1, 0], [1, 0, 0]][case["hseed"] % 3] if len(paths) >= 2 else [0, 0]
            paths = [paths[i] for i in order]
            parts = [sigfile.parse_file(p)[2] for p in paths]
            model = b"".join(parts)
            bounds = np.cumsum([len(q) for q in parts])[:-1].tolist()
            contig = False
            ctx.count("regime:file_listed_twice")
        cwd0 = os.getcwd()
        if case.get("relchdir"):
            # opened by relative names; afterwards the process moves to a directory holding same-named files with other bytes
            ddir = os.path.dirname(paths[0])
            decoy = os.path.join(ddir, "elsewhere")
            os.makedirs(decoy, exist_ok=True)
            for pth in paths:
                with open(pth, "rb") as fh:
                    raw = fh.read()
                hl = sigfile.parse_file(pth)[1]
                with open(os.path.join(decoy, os.path.basename(pth)), "wb") as fh:
                    fh.write(raw[:hl] + bytes((b ^ 0x55) for b in raw[hl:]))
            os.chdir(ddir)
            ctx.count("regime:relative_names_then_chdir")
            try:
                hdr, rd0 = _open_reader([os.path.basename(pth) for pth in paths], nbits, contig)
            finally:
                os.chdir(decoy)
        else:
            hdr, rd0 = _open_reader(paths, nbits, contig)
        rd0.close()
        T = len(model)
        isz = {16: 2, 32: 4}.get(nbits, 1)
        hlen0 = sigfile.parse_file(paths[0])[1]
        try:
            for h in ([case["only"]] if "only" in case else range(case["n"])):
                rng = np.random.default_rng([case["hseed"], h])
                ops, pos = [], 0
                for _ in range(case["len"]):
                    r = rng.random()
                    if r < 0.06 and pos + hlen0 < T and (pos + hlen0) % isz == 0:
                        # exactly one header length ahead of the current data position (an absolute file offset and a data offset must not be confused)
                        if rng.random() < 0.5:
                            ops.append(("ss", pos + hlen0))
                        else:
                            ops.append(("sc", hlen0))
                        pos += hlen0
                        ctx.count("ops:seek_by_one_header_length")
                    elif r < 0.2:
                        o = int(rng.integers(0, T // isz)) * isz if rng.random() < 0.7 or not bounds else int(rng.choice(bounds))
                        ops.append(("ss", o)); pos = o
                    elif r < 0.4:
                        tgt = int(rng.integers(0, T // isz)) * isz if rng.random() < 0.7 or not bounds else int(rng.choice(bounds))
                        ops.append(("sc", tgt - pos)); pos = tgt
                    elif r < 0.7:
                        room = (T - pos) // isz
                        n = int(rng.integers(0, room + 1)) if rng.random() < 0.9 else room + 1
                        ops.append(("cr", n))
                        if pos + n * isz > T:
                            if T < isz or len(ops) >= case["len"]:
                                break
                            pos = int(rng.integers(0, T // isz)) * isz   # the caller catches the error, repositions and carries on
                            ops.append(("ss", pos))
                            continue
                        pos += n * isz
                    else:
                        n = int(rng.integers(0, (T - pos) // isz + 3)) * isz
                        ops.append(("ci", n)); pos += min(n, T - pos)
                rec_case = {"kind": "history", "nbits": nbits, "nchans": nch, "split": split, "dseed": case["hseed"],
                            "contig": case["contig"], "ragged": case.get("ragged", False), "ops": [list(o) for o in ops]}
                if case.get("dup") or case.get("relchdir"):
                    rec_case = dict(case, only=h)      # replay goes through this branch again (the variant is part of the case)
                ok = run_history(ctx, hdr.stream_info, nbits, model, bounds, ops, rec_case)
                if h == 0 and ok:
                    ctx.sample({"nbits": nbits, "nchans": nch, "samples_per_file": split, "ops_head": [list(o) for o in ops[:10]], "n_ops": len(ops)})
        finally:
            os.chdir(cwd0)
        return
    if kind == "read_block":
        from sigpyproc.readers import FilReader

        nbits, nch, split = case["nbits"], case["nchans"], case["split"]
        paths, model, bounds, X = _mk_stream(ctx, nbits, nch, split, case["dseed"])
        fil = FilReader(paths if len(paths) > 1 else paths[0])
        N = sum(split)
        Xf = X.astype(np.float64)
        for start, nsamps in itertools.product(range(-2, N + 2), range(-1, N + 3)):
            ctx.evaluated()
            one = dict(case, only=[start, nsamps])
            try:
                blk = fil.read_block(start, nsamps)
                err = None
            except Exception as exc:  # noqa: BLE001
                err = exc
            in_range = start >= 0 and nsamps >= 1 and start + nsamps <= N
            if nsamps == 0 and 0 <= start <= N:
                ctx.count("unspecified:nsamps0")
                continue
            if in_range:
                ctx.count("read_block:in_range")
                if err is not None:
                    ctx.violation(f"read_block-inrange-raised:{type(err).__name__}@{exc_site(err)}", f"read_block({start},{nsamps}) on N={N}: {fmt_exc(err)}", one)
                    continue
                want = Xf[start : start + nsamps].T
                if blk.data.shape != want.shape or not np.array_equal(blk.data.astype(np.float64), want):
                    ctx.violation("read_block-content", f"read_block({start},{nsamps}) shape {blk.data.shape} vs {want.shape} or values differ", one)
                    continue
                if (start + nsamps) % 3 == 0:
                    # the caller cleans the block it was given in place and asks for the same range again: the file has not changed
                    try:
                        np.asarray(blk.data)[...] = -7.0
                    except ValueError:
                        pass
                    ctx.count("read_block:same_request_after_in_place_edit")
                    blk2 = fil.read_block(start, nsamps)
                    if blk2.data.shape != want.shape or not np.array_equal(blk2.data.astype(np.float64), want):
                        ctx.violation("read_block-content:after-in-place-edit-of-earlier-block", f"read_block({start},{nsamps}) repeated after the first block was overwritten in place does not return the file's samples", one)
                        continue
                if (start + nsamps) % 4 == 1 and start + nsamps < N:
                    # block, then some streaming access on the same reader, then the block that follows the first one
                    for _ in fil.read_plan(gulp=2, start=0, nsamps=min(3, N), quiet=True, description="v"):
                        pass
                    ctx.count("read_block:continuing_after_a_plan")
                    blk3 = fil.read_block(start + nsamps, 1)
                    if not np.array_equal(blk3.data.astype(np.float64), Xf[start + nsamps : start + nsamps + 1].T):
                        ctx.violation("read_block-content:continuing-after-a-plan", f"read_block({start + nsamps},1) issued after read_block({start},{nsamps}) and a short read_plan does not return sample {start + nsamps}", one)
                        continue
                if any(start * 1 < b / max(1, (nch * nbits // 8)) < start + nsamps for b in bounds):
                    ctx.nontrivial_case(one)
            else:
                if err is None:
                    ctx.violation("read_block-outofrange-accepted", f"read_block({start},{nsamps}) on N={N} returned shape {blk.data.shape} instead of raising ValueError", one)
                elif not isinstance(err, ValueError):
                    ctx.violation(f"read_block-outofrange-{type(err).__name__}", f"read_block({start},{nsamps}) raised {fmt_exc(err)}, not ValueError", one)
                else:
                    ctx.count("read_block:rejected")
        return
    raise ValueError(kind)
