"""C12 - FFT-based operations equal their direct time-domain definitions."""
from __future__ import annotations

import numpy as np

from vlib.core import exc_site, fmt_exc

PROPERTY = "C12"
LEVEL = "exploration"
CLAIM = {
    "text": "Exploration by runtime monitoring over a complete length sweep: for every length 1..300 (quick) / 1..2100 plus random lengths up to 70000 (thorough) and four data classes, TimeSeries.rfft, FourierSeries.ifft, kernels.fftconvolve, TimeSeries.correlate and form_spec are compared with float64 direct evaluation (O(n^2) DFT sums for n <= 512, numpy float64 FFT above): spectrum vs the DFT of the zero-padded series, Parseval, ifft(rfft(x)) == x zero-padded to the transform length, convolution length n+m-1 and values, correlation lags -(m-1)..n-1 located with an impulse, amplitude spectrum == |bin|. Error gate 1e-5*||x|| (float32 FFT noise ~1e-7). Data classes include series whose maximum is exactly 0 with negative samples; every array handed to the library is compared with a private copy afterwards. Rounds 7-8 added: templates with exact zeros at both ends, templates given as a reused series object, and boxcar kernels on 2^21+ samples with mean >> rms (gate 2e-6*|x|*|k|, observed error 1000 times smaller). Round 9 added: series on a baseline 2x10^4 times their scatter, and the spectrum returned by rfft() re-read after its deredden(). Round 10 added: spectra of 2^16 bins and more judged bin by bin (rfft, amplitude spectrum, inverse).",
    "design_ref": "DESIGN.md section 3 (C12)",
    "note": "Trusted: numpy float64 FFT (cross-checked against explicit DFT sums for n <= 512), numpy.convolve/correlate in float64.",
    "technique": "runtime monitoring: exhaustive length sweep against float64 direct-definition oracles",
}
ASSUMPTIONS = ["finite float32 inputs with dynamic range <= 1e6"]
RULE = ("every length n in 1..Nmax x data {normal, constant, impulses at both ends, 1e6 dynamic range} x kernel lengths {1,2,3,n//2,n}; "
        "non-trivial = n >= 2; distinct = distinct (n, m, data class, op)")
OPS = ("rfft", "ifft", "parseval", "fftconvolve", "correlate", "mspec")


def REQUIRED(tier):
    return [f"op:{o}" for o in OPS] + ["len:odd_good_size", "len:prime", "len:power_of_two", "direct_dft_checks", "op:rfft_after_longer", "class:max_zero", "input_unchanged_checks", "regime:second_operand_longer", "mspec:after_interpolated_request", "correlate:operands_share_a_buffer", "rfft:after_in_place_edits", "kernel:zeros_at_both_ends", "correlate:template_series_reused", "flat_kernel_on_long_offset_series", "class:high_baseline", "rfft:held_spectrum_after_deredden", "spectra_of_2^16_bins_or_more"]


def EXHAUSTIVE(tier):
    return True


def cases(tier, seed):
    nmax = 300 if tier == "quick" else 2100
    for n0 in range(1, nmax + 1, 5):
        yield {"ns": list(range(n0, min(n0 + 5, nmax + 1))), "seed": int(seed)}
    for n in ((1 << 21,) if tier == "quick" else (1 << 21, 3000017, 1 << 22)):
        yield {"ns": [], "flat_long": True, "n": n, "seed": int(seed)}
    for n in ((1 << 17, (1 << 17) + 1001) if tier == "quick" else (1 << 17, (1 << 17) + 1001, 1 << 18, 200003, 140000)):
        yield {"ns": [], "long_spectrum": True, "n": n, "seed": int(seed)}
    if tier == "thorough":
        rng = np.random.default_rng([seed, 1212])
        for _ in range(200):
            yield {"ns": [int(rng.integers(2101, 70001))], "seed": int(seed), "big": True}


def _data(rng, n, cls):
    if cls == "normal":
        return rng.normal(size=n).astype(np.float32)
    if cls == "constant":
        return np.full(n, 3.25, dtype=np.float32)
    if cls == "impulse":
        x = np.zeros(n, dtype=np.float32)
        x[0] = 1.0
        x[-1] += 2.0
        return x
    if cls == "max_zero":    # largest sample exactly 0 with negative samples around it (a dip on a zero baseline, data minus its maximum)
        x = rng.normal(size=n).astype(np.float32)
        x = x - x.max() if n > 1 and rng.random() < 0.5 else -np.eye(1, n, int(rng.integers(0, n)), dtype=np.float32).ravel() * np.float32(2.5)
        return x.astype(np.float32)
    if cls == "high_baseline":   # total-power data: a level thousands of times the scatter
        return (1.0e6 + 50.0 * rng.normal(size=n)).astype(np.float32)
    if cls == "impulse_k":   # a single unit impulse at a small odd index: bins with |re| == |im| exactly
        x = np.zeros(n, dtype=np.float32)
        x[min(n - 1, int(rng.choice([1, 3])))] = 1.0
        return x
    x = (rng.normal(size=n) * 10 ** rng.uniform(0, 6, size=n)).astype(np.float32)
    return x


def _hdr(n):
    from sigpyproc.header import Header

    return Header(filename="x.tim", data_type="time series", nchans=1, foff=-1.0, fch1=1000.0, nbits=32, tsamp=1e-3, tstart=58000.0, nsamples=n)


def _dft(x64, L):
    """Explicit DFT sum of x zero-padded to L, bins 0..L//2."""
    xp = np.zeros(L)
    xp[: x64.size] = x64
    k = np.arange(L // 2 + 1)[:, None]
    t = np.arange(L)[None, :]
    return (xp[None, :] * np.exp(-2j * np.pi * k * t / L)).sum(axis=1)


def _is_prime(n):
    return n >= 2 and all(n % p for p in range(2, int(n ** 0.5) + 1))


def _flat_long(case, ctx):
    """Boxcar (all-equal) kernels on a long total-power series (mean >> rms): float32 FFT noise is ~1e-7*|x|*|k|; a running-sum shortcut in
    single precision is off by thousands of times that."""
    from sigpyproc.core import kernels
    from sigpyproc.timeseries import TimeSeries

    rng = np.random.default_rng([case["seed"], 77])
    n = int(case["n"])
    x = (1.3e5 + 300.0 * rng.normal(size=n)).astype(np.float32)
    x64 = x.astype(np.float64)
    cs = np.concatenate([[0.0], np.cumsum(x64)])
    for m in (24, 64):
        for height in (1.0, 0.25):
            k = np.full(m, height, dtype=np.float32)
            idx = np.arange(n + m - 1)
            want = height * (cs[np.minimum(idx + 1, n)] - cs[np.maximum(idx + 1 - m, 0)])     # exact boxcar sums in double precision
            tol = 2e-6 * float(np.linalg.norm(x64)) * float(np.linalg.norm(k))
            for nm, fn in (("fftconvolve", lambda: kernels.fftconvolve(x, k)), ("correlate", lambda: TimeSeries(x, _hdr(n)).correlate(k).data)):
                ctx.evaluated(); ctx.count(f"op:{nm}"); ctx.count("flat_kernel_on_long_offset_series")
                got = np.asarray(fn(), dtype=np.float64)
                err = float(np.max(np.abs(got - want))) if got.size == want.size else float("inf")
                if err > tol:
                    ctx.violation(f"{nm}-values:flat-kernel-long-series", f"n={n} boxcar of {m} x {height}: max error {err:.3e} > {tol:.3e} (series mean 1.3e5, rms 300)", dict(case))
                    return
    ctx.nontrivial_case({"flat_long": n})


def _long_spectrum(case, ctx):
    """Spectra of 2^16 bins and more (a blocked or threaded evaluation must still visit every bin): rfft against numpy's double-precision
    transform, the amplitude spectrum against the modulus of every bin, the inverse against the zero-padded series."""
    from sigpyproc.timeseries import TimeSeries

    rng = np.random.default_rng([case["seed"], 78])
    n = int(case["n"])
    x = rng.normal(size=n).astype(np.float32)
    x[n // 3] += 40.0
    ts = TimeSeries(x.copy(), _hdr(n))
    fs = ts.rfft()
    X = np.asarray(fs.data).astype(np.complex128)
    L = 2 * (X.size - 1) if True else 0
    ctx.evaluated(); ctx.count("op:rfft"); ctx.count("spectra_of_2^16_bins_or_more")
    one = dict(case)
    cand = [l for l in (2 * (X.size - 1), 2 * X.size - 1) if l >= n]
    ok = False
    for l in cand:
        W = np.fft.rfft(np.concatenate([x.astype(np.float64), np.zeros(l - n)]))
        if W.size == X.size and np.max(np.abs(W - X)) <= 1e-5 * float(np.linalg.norm(x)):
            ok = True; L = l
    if not ok:
        ctx.violation("rfft-values:long-spectrum", f"n={n}: the {X.size}-bin spectrum differs from the double-precision transform of the zero-padded series", one); return
    ctx.evaluated(); ctx.count("op:mspec")
    ms = np.asarray(fs.form_spec().data, dtype=np.float64)
    if ms.shape != X.shape:
        ctx.violation("mspec:long-spectrum:length", f"n={n}: amplitude spectrum has {ms.shape} bins, the spectrum {X.shape}", one); return
    bad = np.flatnonzero(np.abs(ms - np.abs(X)) > 1e-5 * max(1.0, float(np.max(np.abs(X)))))
    if bad.size:
        ctx.violation("mspec:long-spectrum", f"n={n}: amplitude spectrum differs from |bin| at {bad.size} of {X.size} bins (first {bad[:3].tolist()}, last {bad[-3:].tolist()})", one); return
    ctx.evaluated(); ctx.count("op:ifft")
    back = np.asarray(fs.ifft().data, dtype=np.float64)
    want = np.concatenate([x.astype(np.float64), np.zeros(L - n)])
    if back.size != L or np.max(np.abs(back - want)) > 1e-4 * float(np.max(np.abs(x))):
        ctx.violation("ifft:long-spectrum", f"n={n}: ifft(rfft(x)) has {back.size} samples / differs from x zero-padded to {L}", one); return
    ctx.nontrivial_case({"long_spectrum": n})


def run_case(case, ctx):
    from sigpyproc.core import kernels
    from sigpyproc.timeseries import TimeSeries

    if case.get("long_spectrum"):
        return _long_spectrum(case, ctx)
    if case.get("flat_long"):
        return _flat_long(case, ctx)

    for n in case["ns"]:
        rng = np.random.default_rng([case["seed"], n])
        classes = ("normal", "constant", "impulse", "impulse_k", "dynrange", "max_zero", "high_baseline") if not case.get("big") else ("normal",)
        for cls in classes:
            x = _data(rng, n, cls)
            ctx.count(f"class:{cls}")
            x64 = x.astype(np.float64)
            norm = float(np.linalg.norm(x64)) or 1.0
            one = {"ns": [n], "seed": case["seed"], "cls": cls}
            variant = int(rng.integers(0, 4))
            if variant == 1:   # the same values held in a strided (non-contiguous) array
                big = np.zeros(2 * n, dtype=np.float32)
                big[::2] = x
                ts = TimeSeries(big[::2], _hdr(n))
                ctx.count("variant:strided_input")
            else:
                ts = TimeSeries(x, _hdr(n))
            # ---------------- rfft
            ctx.evaluated(); ctx.count("op:rfft")
            try:
                if variant == 2:   # user-supplied transform (documented option)
                    fs = ts.rfft(fftn=lambda a, m: np.fft.rfft(a, m))
                    ctx.count("variant:custom_fftn")
                else:
                    fs = ts.rfft()
            except Exception as exc:  # noqa: BLE001
                ctx.violation(f"rfft-raised:{type(exc).__name__}@{exc_site(exc)}", f"n={n}: {fmt_exc(exc)}", one)
                continue
            L = int(fs.header.nsamples)
            X = np.asarray(fs.data).astype(np.complex128)
            if L < n or X.size != L // 2 + 1:
                ctx.violation("rfft-length", f"n={n}: transform length {L}, {X.size} bins (expected {L//2+1})", one)
                continue
            if L % 2:
                ctx.count("len:odd_good_size")
            if _is_prime(n):
                ctx.count("len:prime")
            if n & (n - 1) == 0:
                ctx.count("len:power_of_two")
            if L <= 512:
                want = _dft(x64, L)
                ctx.count("direct_dft_checks")
            else:
                want = np.fft.rfft(x64, L)
            tol = 1e-5 * norm * max(1.0, np.log2(L + 1) / 4)
            if np.max(np.abs(X - want)) > tol:
                ctx.violation("rfft-values", f"n={n} L={L} {cls}: max |X - DFT| = {np.max(np.abs(X - want)):.3e} > {tol:.3e}", one)
                continue
            # ---------------- Parseval
            ctx.evaluated(); ctx.count("op:parseval")
            e_t = float(np.sum(x64 ** 2))
            w = np.full(X.size, 2.0)
            w[0] = 1.0
            if L % 2 == 0:
                w[-1] = 1.0
            e_f = float(np.sum(w * np.abs(X) ** 2) / L)
            if abs(e_t - e_f) > 1e-4 * max(e_t, 1e-30):
                ctx.violation("parseval", f"n={n} L={L}: sum x^2 = {e_t!r}, spectrum energy {e_f!r}", one)
            # ---------------- mspec
            ctx.evaluated(); ctx.count("op:mspec")
            if n % 3 == 1:     # the other documented spelling is asked for first on the same object: the plain spectrum must not care
                held = fs.form_spec()
                held_copy = np.array(held.data, copy=True)
                fs.form_spec(interpolate=True)
                ctx.count("mspec:after_interpolated_request")
                if not np.array_equal(np.asarray(held.data), held_copy):
                    ctx.violation("mspec:earlier-result-overwritten", f"n={n}: a spectrum returned by form_spec() changed when form_spec(interpolate=True) was called afterwards", one)
            ms = np.asarray(fs.form_spec().data, dtype=np.float64)
            if ms.shape != X.shape or np.max(np.abs(ms - np.abs(X))) > 1e-5 * max(1.0, np.max(np.abs(X))):
                ctx.violation("mspec", f"n={n}: amplitude spectrum differs from |bin|", one)
            # ---------------- ifft
            ctx.evaluated(); ctx.count("op:ifft")
            lab = f"L-{'odd' if L % 2 else 'even'}{'' if L > 1 else '=1'}"
            try:
                back = fs.ifft(ifftn=lambda a, m=None: np.fft.irfft(a, m)) if variant == 3 else fs.ifft()
                b = np.asarray(back.data, dtype=np.float64)
                wantb = np.zeros(L)
                wantb[:n] = x64
                if b.size != L or back.header.nsamples != L:
                    ctx.violation(f"ifft-length[{lab}]", f"n={n}: ifft(rfft(x)) has {b.size} samples (header {back.header.nsamples}), transform length {L}", one)
                elif np.max(np.abs(b - wantb)) > tol:
                    ctx.violation(f"ifft-values[{lab}]", f"n={n} L={L}: max |ifft(rfft(x)) - x_padded| = {np.max(np.abs(b - wantb)):.3e}", one)
            except Exception as exc:  # noqa: BLE001
                ctx.violation(f"ifft-raised[{lab}]:{type(exc).__name__}@{exc_site(exc)}", f"n={n} L={L}: {fmt_exc(exc)}", one)
            # ---------------- convolution / correlation
            # kernel lengths from 1 up to and beyond the data length (the second operand may be the longer one)
            ms_ = sorted({1, 2, 3, max(1, n // 2), n, n + 1, 2 * n + 3}) if not case.get("big") else [int(rng.integers(1, 200))]
            for m in ms_:
                k = rng.normal(size=m).astype(np.float32) if cls != "impulse" else np.eye(1, m, m - 1 if m % 2 else m // 3, dtype=np.float32).ravel()
                if cls == "normal" and m >= 5 and m % 3 == 0:   # a template sitting in a zero window: exact zeros at both ends
                    k[: 1 + m // 5] = 0
                    k[-1] = 0
                if m >= 3 and k[0] == 0 and k[-1] == 0 and np.any(k):
                    ctx.count("kernel:zeros_at_both_ends")
                if cls == "max_zero" and m % 2:
                    k = (k - k.max()).astype(np.float32) if m > 1 else np.array([-1.5], dtype=np.float32)
                k64 = k.astype(np.float64)
                kkeep = k.copy()
                onem = dict(one, m=m)
                if m > n:
                    ctx.count("regime:second_operand_longer")
                ctx.evaluated(); ctx.count("op:fftconvolve")
                try:
                    cv = np.asarray(kernels.fftconvolve(x, k), dtype=np.float64)
                    wantc = np.convolve(x64, k64, mode="full")
                    tolc = 1e-5 * norm * float(np.linalg.norm(k64) or 1.0) * max(1.0, np.log2(n + m) / 4)
                    if cv.size != n + m - 1:
                        ctx.violation("fftconvolve-length", f"n={n} m={m}: {cv.size} samples, expected {n+m-1}", onem)
                    elif np.max(np.abs(cv - wantc)) > tolc:
                        ctx.violation("fftconvolve-values", f"n={n} m={m} {cls}: max err {np.max(np.abs(cv - wantc)):.3e} > {tolc:.3e}", onem)
                except Exception as exc:  # noqa: BLE001
                    ctx.violation(f"fftconvolve-raised:{type(exc).__name__}@{exc_site(exc)}", f"n={n} m={m}: {fmt_exc(exc)}", onem)
                ctx.evaluated(); ctx.count("op:correlate")
                try:
                    if m % 2 and m > 1:
                        # the template is a series object of its own, used for a first observation and then for this one
                        tmpl = TimeSeries(k, _hdr(m))
                        ts.correlate(tmpl)
                        cr = ts.correlate(tmpl)
                        ctx.count("correlate:template_series_reused")
                    else:
                        cr = ts.correlate(k)
                    c = np.asarray(cr.data, dtype=np.float64)
                    wantr = np.correlate(x64, k64, mode="full")  # lags -(m-1)..n-1
                    if c.size != n + m - 1 or cr.header.nsamples != c.size:
                        ctx.violation("correlate-length", f"n={n} m={m}: {c.size} lags (header {cr.header.nsamples}), expected {n+m-1}", onem)
                    elif np.max(np.abs(c - wantr)) > 1e-5 * norm * float(np.linalg.norm(k64) or 1.0) * max(1.0, np.log2(n + m) / 4):
                        rev = np.max(np.abs(c[::-1] - wantr)) <= 1e-4 * norm * float(np.linalg.norm(k64) or 1.0)
                        ctx.violation(f"correlate-values{':lags-reversed' if rev else ''}", f"n={n} m={m} {cls}: correlation differs from sum_j x[j+lag]*y[j], lag=-(m-1)..n-1", onem)
                except Exception as exc:  # noqa: BLE001
                    ctx.violation(f"correlate-raised:{type(exc).__name__}@{exc_site(exc)}", f"n={n} m={m}: {fmt_exc(exc)}", onem)
                ctx.count("input_unchanged_checks")
                if not (np.array_equal(k, kkeep) and np.array_equal(x.astype(np.float64), x64) and np.array_equal(np.asarray(ts.data, dtype=np.float64), x64)):
                    ctx.violation("input-modified", f"n={n} m={m} {cls}: rfft/ifft/fftconvolve/correlate changed an array the caller holds", onem)
                    break
                if n >= 2:
                    ctx.nontrivial_case({"n": n, "m": m, "c": cls})
            if n >= 2:
                ctx.nontrivial_case({"n": n, "c": cls, "op": "fft"})
        # ---- two windows of one recording (their samples share a buffer): the correlation is that of the two windows, not of one with itself
        if n >= 4 and not case.get("big"):
            rec = _data(rng, n + 5, "normal")
            kk = int(rng.integers(1, 6))
            wa, wb = rec[:n], rec[kk : kk + n]
            ctx.evaluated(); ctx.count("op:correlate"); ctx.count("correlate:operands_share_a_buffer")
            try:
                for other, lab in ((wb, "shifted window of the same buffer"), (wa[::-1], "reversed view of the same samples")):
                    cr = TimeSeries(wa, _hdr(n)).correlate(other)
                    wantr = np.correlate(wa.astype(np.float64), np.asarray(other, dtype=np.float64), mode="full")
                    c = np.asarray(cr.data, dtype=np.float64)
                    if c.size != wantr.size or np.max(np.abs(c - wantr)) > 1e-5 * float(np.linalg.norm(wa)) * float(np.linalg.norm(other)) * max(1.0, np.log2(2 * n) / 4):
                        ctx.violation("correlate-values:operands-share-a-buffer", f"n={n}: correlation with a {lab} differs from sum_j x[j+lag]*y[j]", {"ns": [n], "seed": case["seed"], "cls": "shared_buffer"})
                        break
            except Exception as exc:  # noqa: BLE001
                ctx.violation(f"correlate-raised:{type(exc).__name__}@{exc_site(exc)}", f"n={n}: {fmt_exc(exc)}", {"ns": [n], "seed": case["seed"], "cls": "shared_buffer"})
        # ---- the transform of a series describes the samples it holds now: edit in place, transform again
        if n >= 2 and not case.get("big") and n % 4 == 2:
            ya = _data(rng, n, "normal").copy()
            tsm = TimeSeries(ya, _hdr(n))
            f1 = tsm.rfft()
            np.asarray(f1.data)[...] = 0            # the caller zaps the spectrum it was given
            np.asarray(tsm.data)[n // 2] += 25.0     # and injects a pulse into the live array
            f2 = tsm.rfft()
            L2 = int(f2.header.nsamples)
            ctx.evaluated(); ctx.count("op:rfft"); ctx.count("rfft:after_in_place_edits")
            want2 = _dft(np.asarray(tsm.data, dtype=np.float64), L2) if L2 <= 512 else np.fft.rfft(np.asarray(tsm.data, dtype=np.float64), L2)
            if np.max(np.abs(np.asarray(f2.data).astype(np.complex128) - want2)) > 1e-5 * float(np.linalg.norm(np.asarray(tsm.data, dtype=np.float64))) * max(1.0, np.log2(L2 + 1) / 4):
                ctx.violation("rfft-values:after-in-place-edits", f"n={n}: rfft() called again after the series (and the earlier spectrum) were edited in place does not describe the current samples", {"ns": [n], "seed": case["seed"], "cls": "edited"})
        # ---- whitening a spectrum gives a new spectrum: the forward transform the caller holds still describes the series
        if n >= 8 and not case.get("big") and n % 5 == 3:
            fsd = TimeSeries(_data(rng, n, "normal"), _hdr(n)).rfft()
            snapd = np.array(np.asarray(fsd.data), copy=True)
            try:
                with np.errstate(all="ignore"):
                    fsd.deredden()
                ctx.evaluated(); ctx.count("op:rfft"); ctx.count("rfft:held_spectrum_after_deredden")
                if not np.array_equal(np.asarray(fsd.data), snapd):
                    ctx.violation("spectrum-changed-by-deredden", f"n={n}: the spectrum returned by rfft() holds other values after its deredden() was called (the whitened copy is a separate result)", {"ns": [n], "seed": case["seed"], "cls": "deredden"})
            except Exception:  # noqa: BLE001
                ctx.count("deredden_unavailable")
        # ---- a shorter series transformed right after a longer one that pads to the same length (stale work buffers)
        if n >= 3 and not case.get("big"):
            for k in (1, 2):
                m2 = n - k
                ya, yb = _data(rng, n, "normal"), _data(rng, m2, "normal")
                TimeSeries(ya, _hdr(n)).rfft()
                fsb = TimeSeries(yb, _hdr(m2)).rfft()
                Lb = int(fsb.header.nsamples)
                ctx.evaluated(); ctx.count("op:rfft_after_longer")
                wantb = _dft(yb.astype(np.float64), Lb) if Lb <= 512 else np.fft.rfft(yb.astype(np.float64), Lb)
                if np.max(np.abs(np.asarray(fsb.data).astype(np.complex128) - wantb)) > 1e-5 * float(np.linalg.norm(yb)) * max(1.0, np.log2(Lb + 1) / 4):
                    ctx.violation("rfft-values:after-longer-series", f"rfft of a {m2}-sample series computed right after a {n}-sample one differs from its DFT (L={Lb})", {"ns": [n], "seed": case["seed"], "seq": [n, m2]})
                    break
        # ---- amplitude spectrum of spectra with |re| == |im|
        if not case.get("big"):
            from sigpyproc.fourierseries import FourierSeries

            amp = rng.integers(1, 9, size=max(1, n // 2 + 1)).astype(np.float32)
            z = (amp * rng.choice([1, -1], size=amp.size) + 1j * amp * rng.choice([1, -1], size=amp.size)).astype(np.complex64)
            ms2 = np.asarray(FourierSeries(z, _hdr(2 * (z.size - 1) if z.size > 1 else 1)).form_spec().data, dtype=np.float64)
            ctx.evaluated(); ctx.count("op:mspec")
            if ms2.shape != z.shape or np.max(np.abs(ms2 - np.abs(z.astype(np.complex128)))) > 1e-5 * float(np.max(np.abs(z))):
                ctx.violation("mspec:equal-re-im", f"n={n}: amplitude spectrum of bins with |re| == |im| differs from the modulus", {"ns": [n], "seed": case["seed"], "cls": "equal_re_im"})
        if n % 50 == 7:
            ctx.sample({"n": n, "transform_length": L, "classes": list(classes), "kernel_lengths": ms_})
