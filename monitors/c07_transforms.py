"""C07 - streaming file-to-file transforms equal their whole-array definitions."""
from __future__ import annotations

import os

import numpy as np

from vlib import refmodels, sigfile
from vlib.core import exc_site, fmt_exc

AUDIT_INPUT_FILES = True   # after every case the driver verifies that the synthesised input files still hold their bytes
PROPERTY = "C07"
LEVEL = "exploration"
CLAIM = {
    "text": "Exploration by runtime monitoring: invert_freq, apply_channel_mask, extract_samps, extract_chans, extract_bands, downsample, subband and remove_zerodm of the real FilReader are run on synthesised 1/2/4/8/32-bit single and multi-file inputs for seeded random (gulp,start,nsamps) and transform parameters; each output file is parsed by an independent SIGPROC parser (complete header, data bytes == nsamples x nchans x declared nbits, defined sample count) and its data compared with the whole-array definition evaluated in float64 on the selected input: bit-exact for selection/permutation/fill, |out-mean|<1 level for decimation, exact sums for sub-banding, <=1 level for zero-DM. A FileWriter spy counts blocks. Thorough repeats under NUMBA_BOUNDSCHECK=1. Mask values for float data include negative and fractional ones; one case reads more than 64 MiB in a single gulp; input files are re-hashed after every case. Rounds 7-8 added: products whose last third is all zero, 1024 bright channels summed into 1-2 sub-bands at DM 0, sub-byte depths with 2-20 channels, and a float channel with zero mean but non-zero samples in zero-DM removal. Round 10 added: frequency factors 3/5/6 and constructed decimation groups whose mean is an exact integer although no row mean is.",
    "design_ref": "DESIGN.md section 3 (C07)",
    "note": "Trusted: vlib/sigfile.py parser/packer, numpy float64. Delays come from the library's own get_dmdelays (all >= 0 in the domain). Cases outside the stated preconditions (ffactor or nsub not dividing nchans, output sample not a whole number of bytes, zero-DM results outside the representable range) are only counted.",
    "technique": "runtime monitoring: differential oracle on re-parsed output files + well-formedness audit with an independent parser + write-call spy",
}
ASSUMPTIONS = ["integer-valued input so that float32 sums are exact", "zero-DM definition uses the bandpass of the selected range",
               "decimation drops the incomplete trailing group of the selected range"]
RULE = ("per transform x depth {1,2,4,8,32}: seeded random cases (N 40..160 quick / ..600 thorough, nchans 8/16/32, 1..3 input files, gulp from "
        "{1,3,7,16,N,10N,random}, sub-ranges) with random masks/channel lists/(chanstart,nchans,chanpersub)/(tfactor,ffactor)/(dm,nsub). "
        "Non-trivial = >= 2 blocks written (spy) and a non-identity parameter; distinct = distinct case records.")
DEPTHS = (1, 2, 4, 8, 32)
TRANSFORMS = ("invert_freq", "apply_channel_mask", "extract_samps", "extract_chans", "extract_bands", "downsample", "subband", "remove_zerodm")
BOUNDSCHECK_TIERS = ("thorough",)


def REQUIRED(tier):
    return [f"t:{t}" for t in TRANSFORMS] + ["outputs_parsed", "outputs_compared", "spy:cwrite_calls", "regime:multi_block", "regime:subrange", "regime:multi_file_input", "regime:reader_with_history", "regime:single_read_over_64MiB", "regime:default_range_arguments", "regime:output_name_held_a_longer_file", "mask:nothing_flagged", "mask:non_finite_samples_in_masked_channels", "regime:trailing_zero_blocks", "regime:subband_over_257_channels_per_band:compared", "zerodm:channel_with_zero_mean_nonzero_samples", "regime:integer_group_means_in_non_power_of_two_groups"]


def cases(tier, seed):
    yield {"t": "huge", "tfactor": 3, "gulp": 70001, "pseed": int(seed) * 100003 + 999983}
    if tier == "thorough":
        yield {"t": "huge", "tfactor": 5, "gulp": 10**9, "pseed": int(seed) * 100003 + 999979}
    # products whose last blocks are all zero (blanked tail of a recording), and a wide band summed into one or two sub-bands
    for i, (t, sp) in enumerate((("apply_channel_mask", "zero_tail"), ("extract_samps", "zero_tail"), ("apply_channel_mask", "all_zero"), ("downsample", "zero_tail"), ("invert_freq", "zero_tail"))):
        yield {"t": t, "nbits": 8, "N": 3072, "nchans": 16, "split": [3072], "start": 0, "nsamps": 3072, "gulp": 512, "special": sp, "pseed": int(seed) * 100003 + 999900 + 20 * i}
    # decimation groups whose mean is an exact integer although no row of the group has an integer mean, with group widths that are not powers of two
    for i, (tf, ff, nch) in enumerate(((4, 3, 12), (3, 6, 12), (5, 3, 6), (4, 5, 20))):
        yield {"t": "downsample", "nbits": 8, "N": 60 * tf * 10, "nchans": nch, "split": [60 * tf * 10], "start": 0, "nsamps": 60 * tf * 10, "gulp": 64 * tf, "special": "integer_group_means", "tf": tf, "ff": ff,
               "pseed": int(seed) * 100003 + 999700 + 20 * i}
    for i, nsub in enumerate((1, 2)):
        yield {"t": "subband", "nbits": 8, "N": 96, "nchans": 1024, "split": [96], "start": 0, "nsamps": 96, "gulp": 40, "special": "bright_wide", "nsub": nsub, "pseed": int(seed) * 100003 + 999800 + 20 * i}
    rng = np.random.default_rng([seed, 707])
    per = 60 if tier == "quick" else 1000
    k = 0
    for t in TRANSFORMS:
        for nbits in DEPTHS:
            for _ in range(per):
                k += 1
                N = int(rng.integers(40, 160 if tier == "quick" else 600))
                nch = int(rng.choice([8, 16, 32]))
                if nbits in (8, 32) and t in ("invert_freq", "apply_channel_mask", "extract_samps", "extract_chans", "remove_zerodm", "subband") and rng.random() < 0.35:
                    nch = int(rng.choice([1, 3, 5, 7, 13]))  # odd channel counts are legal at whole-byte depths
                elif nbits in (2, 4) and t in ("invert_freq", "apply_channel_mask", "extract_samps", "remove_zerodm") and k % 3 == 0:
                    nch = int(rng.choice([2, 4, 6, 10] if nbits == 4 else [4, 12, 20]))   # whole bytes per sample, but not a multiple of 8 channels
                nfiles = int(rng.choice([1, 1, 2, 3]))
                cuts = sorted(rng.choice(np.arange(1, N), size=nfiles - 1, replace=False).tolist()) if nfiles > 1 else []
                split = [b - a for a, b in zip([0] + cuts, cuts + [N])]
                start = int(rng.choice([0, int(rng.integers(0, N // 2))]))
                nsamps = int(rng.choice([N - start, int(rng.integers(N // 4, N - start + 1))]))
                gulp = int(rng.choice([1, 3, 7, 16, N, 10 * N, int(rng.integers(1, N))]))
                yield {"t": t, "nbits": nbits, "N": N, "nchans": nch, "split": split, "start": start, "nsamps": nsamps, "gulp": gulp,
                       "pseed": int(seed) * 100003 + k}


def _huge_case(case, ctx):
    """One decimation whose single read exceeds 64 MiB (size-dependent reader paths): 1024 channels x 70001 samples at 8 bits."""
    from sigpyproc.readers import FilReader

    rng = np.random.default_rng([case["pseed"], 3])
    N, nch, tf = 70001, 1024, int(case["tfactor"])
    d = os.path.join(ctx.tmp, "huge")
    os.makedirs(d, exist_ok=True)
    X = rng.integers(0, 200, size=(N, nch), dtype=np.uint8)
    src = os.path.join(d, "in.fil")
    sigfile.write_fil(src, X, 8, fch1=1500.0, foff=-0.1, tsamp=1e-3)
    out = os.path.join(d, "out.fil")
    ctx.evaluated(); ctx.count("t:downsample"); ctx.count("regime:single_read_over_64MiB")
    try:
        FilReader(src).downsample(tf, 1, out, gulp=int(case["gulp"]), quiet=True, description="v")
        dd, hl, raw = sigfile.parse_file(out)
        n_out = N // tf
        if len(raw) != n_out * nch:
            ctx.violation("output-size:downsample:huge-read", f"{len(raw) // nch} output samples for {N} input samples, tfactor {tf} (expected {n_out}); gulp={case['gulp']}", case)
            return
        got = np.frombuffer(raw, dtype=np.uint8).reshape(n_out, nch).astype(np.float64)
        idx = rng.choice(n_out, size=400, replace=False)
        want = np.stack([X[i * tf : (i + 1) * tf].astype(np.float64).mean(axis=0) for i in idx])
        if np.any(np.abs(got[idx] - want) >= 1.0):
            bad = int(np.sum(np.any(np.abs(got[idx] - want) >= 1.0, axis=1)))
            ctx.violation("values:downsample:huge-read", f"{bad} of 400 sampled output rows differ from the block means (gulp={case['gulp']}, tfactor={tf})", case)
            return
        ctx.nontrivial_case(case)
    except Exception as exc:  # noqa: BLE001
        ctx.violation(f"raised:downsample:huge-read:{type(exc).__name__}@{exc_site(exc)}", fmt_exc(exc), case)
    finally:
        for f in os.listdir(d):
            os.unlink(os.path.join(d, f))


def cases_boundscheck(tier, seed):
    for i, c in enumerate(cases("quick", seed)):
        yield c


_spy = {"installed": False, "n": 0}


def setup_worker(ctx):
    from sigpyproc.io.fileio import FileWriter

    if _spy["installed"]:
        return
    o = FileWriter.cwrite

    def cwrite(self, arr):
        _spy["n"] += 1
        return o(self, arr)

    FileWriter.cwrite = cwrite
    _spy["installed"] = True


def _input(ctx, case):
    rng = np.random.default_rng([case["pseed"], 1])
    X = sigfile.random_samples(rng, case["N"], case["nchans"], case["nbits"], small=True)
    if case["t"] == "remove_zerodm" and case["nbits"] != 32:
        # mid-range channel levels + small noise so that the exact zero-DM result stays representable in most cases
        top = sigfile.maxval(case["nbits"])
        base = rng.integers(top // 3, 2 * top // 3 + 1, size=case["nchans"])
        noise = rng.integers(-max(1, top // 24), max(1, top // 24) + 1, size=X.shape) if top > 3 else (rng.random(X.shape) < 0.15).astype(int)
        X = np.clip(base + noise, 0, top).astype(X.dtype)
    if case.get("special") in ("zero_tail", "all_zero"):
        X[-(case["N"] // 3):] = 0
        ctx.count("regime:trailing_zero_blocks")
    if case.get("special") == "bright_wide":
        X = rng.integers(150, 256, size=X.shape).astype(X.dtype)
    if case.get("special") == "integer_group_means":
        tf, ff, nch = case["tf"], case["ff"], case["nchans"]
        lev = rng.integers(3, 250, size=(case["N"] // tf, 1, nch // ff, 1))
        dev = np.zeros((case["N"] // tf, tf, nch // ff, ff), dtype=np.int64)
        # +1 on one sample of a row, -1 on one sample of another row of the same group (repeated): the group sum stays tf*ff*level
        for _ in range(2):
            ra = rng.integers(0, tf, size=dev.shape[0]); rb = (ra + 1 + rng.integers(0, tf - 1, size=dev.shape[0])) % tf
            g = rng.integers(0, nch // ff, size=dev.shape[0]); ca = rng.integers(0, ff, size=dev.shape[0]); cb = rng.integers(0, ff, size=dev.shape[0])
            i0 = np.arange(dev.shape[0])
            dev[i0, ra, g, ca] += 1; dev[i0, rb, g, cb] -= 1
        X = (lev + dev).reshape(case["N"], nch).astype(X.dtype)
        ctx.count("regime:integer_group_means_in_non_power_of_two_groups")
    d = os.path.join(ctx.tmp, f"i{ctx.evaluations}")
    os.makedirs(d, exist_ok=True)
    paths = sigfile.write_split(d, X, case["nbits"], case["split"], fch1=1500.0, foff=-10.0 if case["nchans"] <= 64 else -0.25, tsamp=1e-3)
    return X, paths, d


def _parse_out(ctx, case, path, nch_out, nbits_out, n_out, label):
    """Well-formedness audit; returns data (n_out, nch_out) float64 or None."""
    try:
        d, hl, raw = sigfile.parse_file(path)
    except Exception as exc:  # noqa: BLE001
        ctx.violation(f"malformed-output:{label}", f"output header unparseable: {exc}", case)
        return None
    ctx.count("outputs_parsed")
    if d.get("nbits") != nbits_out or d.get("nchans") != nch_out:
        ctx.violation(f"output-header:{label}", f"output declares nbits={d.get('nbits')} nchans={d.get('nchans')}, expected {nbits_out}/{nch_out}", case)
        return None
    if len(raw) * 8 != n_out * nch_out * nbits_out:
        ctx.violation(f"output-size:{label}", f"data section {len(raw)} bytes; {n_out} samples x {nch_out} chans x {nbits_out} bits = {n_out*nch_out*nbits_out//8} bytes expected "
                      f"(inferred samples {len(raw)*8//(nch_out*nbits_out)})", case)
        return None
    return sigfile.decode_data(raw, nbits_out, nch_out).astype(np.float64)


def _reader_check(ctx, case, path, want, label):
    from sigpyproc.readers import FilReader

    fil = FilReader(path)
    if fil.header.nsamples != want.shape[0]:
        ctx.violation(f"reader-nsamples:{label}", f"FilReader infers {fil.header.nsamples} samples, {want.shape[0]} defined", case)
        return
    got = fil.read_block(0, want.shape[0]).data.T.astype(np.float64)
    if not np.array_equal(got, want):
        ctx.violation(f"reader-values:{label}", "FilReader.read_block of the output differs from the parsed bytes", case)


def run_case(case, ctx):
    from sigpyproc.readers import FilReader

    if case["t"] == "huge":
        if getattr(ctx, "mode", "normal") == "normal":
            _huge_case(case, ctx)
        return
    t, nbits, nch = case["t"], case["nbits"], case["nchans"]
    start, nsamps, gulp = case["start"], case["nsamps"], case["gulp"]
    rng = np.random.default_rng([case["pseed"], 2])
    X, paths, d = _input(ctx, case)
    seg = X[start : start + nsamps].astype(np.float64)
    fil = FilReader(paths if len(paths) > 1 else paths[0])
    out = os.path.join(d, "out.fil")
    kw = {"gulp": gulp, "quiet": True, "description": "v"}
    rkw = dict(kw, start=start, nsamps=nsamps)
    if start == 0 and nsamps == case["N"] and case["pseed"] % 2:
        rkw = dict(kw)            # the whole file through the documented defaults (no start, no nsamps)
        ctx.count("regime:default_range_arguments")
    if case["pseed"] % 5 == 1:
        # the output name already exists from an earlier, longer product (a re-run with other parameters)
        with open(out, "wb") as fh:
            fh.write(open(paths[0], "rb").read() + bytes(range(256)) * 64)
        ctx.count("regime:output_name_held_a_longer_file")
    label = f"{t}"
    # reader with a history: earlier, unrelated operations on the same reader object must not influence the transform
    prng = np.random.default_rng([case["pseed"], 77])
    if prng.random() < 0.5:
        N_ = case["N"]
        for _ in range(int(prng.integers(1, 3))):
            kind = int(prng.integers(0, 4))
            a = int(prng.integers(0, N_ - 2)); b = int(prng.integers(1, N_ - a))
            with np.errstate(all="ignore"):
                if kind == 0:
                    (fil.compute_stats if prng.random() < 0.5 else fil.compute_stats_basic)(gulp=int(prng.integers(1, N_ + 1)), start=a, nsamps=b, quiet=True, description="v")
                elif kind == 1:
                    it = fil.read_plan(gulp=max(1, b // 3), start=a, nsamps=b, quiet=True, description="v")
                    next(it)  # abandon the plan after one block
                elif kind == 2:
                    fil.read_block(a, b)
                else:
                    fil.bandpass(gulp=int(prng.integers(1, N_ + 1)), start=a, nsamps=b, quiet=True, description="v")
        ctx.count("regime:reader_with_history")
    ctx.evaluated()
    ctx.count(f"t:{t}")
    if len(paths) > 1:
        ctx.count("regime:multi_file_input")
    if start + nsamps < case["N"] or start:
        ctx.count("regime:subrange")
    _spy["n"] = 0
    nonident = True
    try:
        if t == "invert_freq":
            fil.invert_freq(out, **rkw)
            outs = [(out, nch, nbits, seg[:, ::-1], "exact")]
        elif t == "apply_channel_mask":
            mask = rng.random(nch) < 0.4
            if case["pseed"] % 4 == 2:
                mask[:] = False        # clean data: nothing is flagged, the product is still a complete copy of the requested range
                ctx.count("mask:nothing_flagged")
            mval = int(rng.integers(0, min(2 ** min(nbits, 8), 64)))
            if case.get("special") == "zero_tail":
                mask[:] = False
            if case.get("special") == "all_zero":
                mask[:] = True
                mval = 0
            if nbits == 32 and rng.random() < 0.5:   # any float is a legal fill for a 32-bit file
                mval = float(rng.choice([-2.5, -0.75, -1000.0, 1.0e6, 0.125]))
            nonfin = nbits == 32 and mask.any() and case["pseed"] % 3 == 0
            if nonfin:
                # a dead channel that saturated / was NaN-blanked upstream is exactly what gets masked: rewrite the input with inf and NaN there
                Xn = X.astype(np.float32).copy()
                cm = np.flatnonzero(mask)
                Xn[::3, cm[0]] = np.inf
                Xn[1::4, cm[-1]] = np.nan
                Xn[2::5, cm[0]] = -np.inf
                paths = sigfile.write_split(d, Xn, 32, case["split"], fch1=1500.0, foff=-10.0, tsamp=1e-3, stem="nonfinite")
                fil = FilReader(paths if len(paths) > 1 else paths[0])
                ctx.count("mask:non_finite_samples_in_masked_channels")
            fil.apply_channel_mask(mask, mval, out, **rkw)
            want = seg.copy()
            want[:, mask] = mval
            nonident = bool(mask.any())
            outs = [(out, nch, nbits, want, "exact")]
            case = dict(case, mask=mask.astype(int).tolist(), mval=mval)
        elif t == "extract_samps":
            fil.extract_samps(start, nsamps, out, gulp=gulp, quiet=True, description="v")
            outs = [(out, nch, nbits, seg, "exact")]
            nonident = start > 0 or nsamps < case["N"]
        elif t == "extract_chans":
            chans = rng.choice(nch, size=int(rng.integers(1, min(nch, 5) + 1)), replace=False)
            if nch >= 5 and rng.random() < 0.3:   # an unsorted run of adjacent channels
                a0 = int(rng.integers(0, nch - 4))
                chans = np.array([a0, a0 + 2, a0 + 1, a0 + 3])
            bs = int(rng.choice([200, 1, 2, 4]))  # small batches exercise the per-batch bookkeeping
            allch = bool(case["pseed"] % 9 == 4)
            if allch:      # the documented default: no list means every channel
                chans = np.arange(nch)
                ctx.count("extract_chans:default_all_channels")
            names = fil.extract_chans(None if allch else chans, os.path.join(d, "oc"), batch_size=bs, **rkw)
            if len(names) != len(chans):
                ctx.violation("file-count:extract_chans", f"{len(names)} files for {len(chans)} channels", case)
                return
            outs = [(n, 1, 32, seg[:, [c]], "exact") for n, c in zip(names, chans)]
            case = dict(case, chans=chans.tolist())
        elif t == "extract_bands":
            per_byte = max(1, 8 // nbits)
            cps_opts = [c for c in (2, 4, 8, 16) if c <= nch and c % per_byte == 0]
            cps = int(rng.choice(cps_opts))
            nb = int(rng.integers(1, nch // cps + 1))
            chanstart = int(rng.integers(0, nch - nb * cps + 1))
            bs = int(rng.choice([200, 1, 2, 3]))
            names = fil.extract_bands(chanstart, nb * cps, cps, os.path.join(d, "ob"), batch_size=bs, **rkw)
            case = dict(case, chanstart=chanstart, nbands=nb, chanpersub=cps, batch_size=bs)
            if len(names) != nb:
                ctx.violation("file-count:extract_bands", f"{len(names)} files returned for {nb} bands (chanstart={chanstart}, nchans={nb*cps}, chanpersub={cps}, file nchans={nch})", case)
                return
            outs = [(n, cps, nbits, seg[:, chanstart + i * cps : chanstart + (i + 1) * cps], "exact") for i, n in enumerate(names)]
        elif t == "downsample":
            per_byte = max(1, 8 // nbits)
            ff_opts = [f for f in (1, 2, 4, 8) if nch % f == 0 and (nch // f) % per_byte == 0]
            ff_opts += [f for f in (3, 5, 6) if nch % f == 0 and (nch // f) % per_byte == 0 and nch > f]
            ff = int(rng.choice(ff_opts))
            tf = int(rng.choice([1, 2, 3, 4, 5, 8]))
            if tf == 1 and ff == 1:
                tf = 2
            if case.get("special") == "integer_group_means":
                tf, ff = case["tf"], case["ff"]
            fil.downsample(tf, ff, out, **rkw)
            n_out = nsamps // tf
            want = seg[: n_out * tf].reshape(n_out, tf, nch // ff, ff).mean(axis=(1, 3))
            outs = [(out, nch // ff, nbits, want, "mean")]
            case = dict(case, tfactor=tf, ffactor=ff)
        elif t == "subband":
            nsub = int(rng.choice([s for s in (1, 2, 4, 8) if nch % s == 0]))
            dm = float(rng.choice([0.0, rng.uniform(0, 60)]))
            if case.get("special") == "bright_wide":
                nsub, dm = case["nsub"], 0.0
            delays = np.asarray(fil.header.get_dmdelays(dm)).reshape(-1).astype(np.int64)
            md = int(delays.max())
            if delays.min() < 0 or md >= nsamps:
                ctx.skip("subband: maxdelay >= nsamps")
                return
            if case.get("special") == "bright_wide":
                ctx.count("regime:subband_over_257_channels_per_band:compared")
            fil.subband(dm, nsub, out, **rkw)
            n_out = nsamps - md
            want = np.zeros((n_out, nsub))
            f = nch // nsub
            for c in range(nch):
                want[:, c // f] += seg[delays[c] : delays[c] + n_out, c]
            outs = [(out, nsub, 32, want, "exact")]
            case = dict(case, dm=dm, nsub=nsub, maxdelay=md)
        elif t == "remove_zerodm":
            if nbits == 32 and nsamps % 2 == 0 and nch >= 3 and case["pseed"] % 2 == 0:
                # a channel whose samples cancel exactly over the selected range (zero band-pass weight) although it is not empty
                Xz = X.astype(np.float32).copy()
                cz = int(rng.integers(0, nch))
                Xz[start : start + nsamps, cz] = np.tile(np.array([2.0, -2.0], dtype=np.float32), nsamps // 2) * np.float32(1 + cz % 3)
                paths = sigfile.write_split(d, Xz, 32, case["split"], fch1=1500.0, foff=-10.0, tsamp=1e-3, stem="zeromean")
                fil = FilReader(paths if len(paths) > 1 else paths[0])
                seg = Xz[start : start + nsamps].astype(np.float64)
                ctx.count("zerodm:channel_with_zero_mean_nonzero_samples")
            fil.remove_zerodm(out, **rkw)
            b = seg.mean(axis=0)
            w = b / b.sum() if b.sum() else np.zeros_like(b)
            want = seg - seg.sum(axis=1, keepdims=True) * w + b
            if nbits != 32 and (want.min() < 0 or want.max() > 2 ** nbits - 1):
                ctx.skip("zerodm: exact result leaves the representable range")
                # still require a well-formed file of the right size
                _parse_out(ctx, case, out, nch, nbits, nsamps, label)
                return
            outs = [(out, nch, nbits, want, "level")]
        else:
            raise ValueError(t)
    except Exception as exc:  # noqa: BLE001
        ctx.violation(f"raised:{label}:{type(exc).__name__}@{exc_site(exc)}", f"{t} raised {fmt_exc(exc)}", case)
        return
    nwrites = _spy["n"]
    ctx.count("spy:cwrite_calls", nwrites)
    multi = nwrites >= 2 * len(outs)
    if multi:
        ctx.count("regime:multi_block")
    for path, nch_o, nbits_o, want, mode in outs:
        got = _parse_out(ctx, case, path, nch_o, nbits_o, want.shape[0], label)
        if got is None:
            return
        ctx.count("outputs_compared")
        err = np.abs(got - want)
        if mode == "exact":
            tol = np.zeros_like(want)
        elif mode == "mean":
            tol = np.full_like(want, 1.0 - 1e-9) if nbits_o != 32 else 1e-6 + 1e-6 * np.abs(want)
        else:
            # one quantisation level + float32 rounding of the bandpass/weights the kernel receives (|z*w|, |b| <= 2^nbits; eps32 ~ 1.2e-7)
            tol = np.full_like(want, 1.0 + 1e-4) if nbits_o != 32 else 1e-3 + 1e-4 * np.abs(want)
        ok = bool(np.all(err <= tol))
        if not ok:
            bad = np.argwhere(~(err <= tol))
            i, j = (int(v) for v in bad[0])
            extra = ""
            if t == "remove_zerodm":
                Xf = X.astype(np.float64)
                b2 = Xf.mean(axis=0)
                alt = seg - seg.sum(axis=1, keepdims=True) * (b2 / b2.sum()) + b2
                if np.all(np.abs(got - alt) <= tol):
                    extra = ":bandpass-of-whole-file"
            ctx.violation(f"values:{label}{extra}", f"{t}: output[{i},{j}]={got[i, j]!r} definition {want[i, j]!r} ({len(bad)} of {got.size} differ; gulp={gulp},start={start},nsamps={nsamps},writes={nwrites})", case)
            return
        if nbits_o in (1, 2, 4, 8, 32) and ctx.evaluations % 3 == 0 and nch_o * nbits_o % 8 == 0 and mode == "exact":
            _reader_check(ctx, case, path, got, label)
    if multi and nonident:
        ctx.nontrivial_case(case)
    if ctx.evaluations % 60 == 1:
        ctx.sample({"case": {k: v for k, v in case.items() if k != "mask"}, "writes": nwrites, "outputs": [[os.path.basename(p), a, b, list(w.shape)] for p, a, b, w, _ in outs][:3]})
    for f in os.listdir(d):
        os.unlink(os.path.join(d, f))
    os.rmdir(d)
