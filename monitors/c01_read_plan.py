"""C01 - gulped reading delivers every requested sample exactly once, in order.

Oracle: the array X used to synthesise the file(s) (vlib.sigfile, independent
of sigpyproc.io).  Observed: every tuple yielded by FilReader.read_plan (copied
at once: the buffer is reused) plus the FileReader.seek/creadinto trace.
"""
from __future__ import annotations

import itertools
import mmap
import os

import numpy as np

from vlib import sigfile
from vlib.core import exc_site, fmt_exc

AUDIT_INPUT_FILES = True   # after every case the driver verifies that the synthesised input files still hold their bytes
PROPERTY = "C01"
LEVEL = "exploration"
CLAIM = {
    "text": "Exploration by runtime monitoring: the real FilReader.read_plan is driven over a bounded-exhaustive lattice of (depth, nchans, file split, gulp, start, nsamps, skipback) on 12/17-sample streams plus seeded random plans on larger multi-file streams and custom allocators; every yielded block and the underlying seek/read trace are checked against the array the files were synthesised from. Held = no refuting block sequence among the plans listed in the evidence; nothing is claimed beyond those bounds. After every case the synthesised input files are re-hashed (no read may change them); the thorough tier also runs the repository's own test-suite with a read_plan tiling contract recording (vlib/suite_plugin.py). Rounds 7-8 added: 3001-sample narrow sub-byte streams read in gulps of 1027/1031/2999 samples, chains of overlapping full-block plans on one reader (incl. plans abandoned before the next one), and file names that held another geometry of equal byte size a moment earlier. Round 9 added: consumers that overwrite the yielded block, names that held a file with longer headers, plans started from a worker thread with the default description. Round 10 added: an abandoned plan finalised (closed or garbage-collected) between two blocks of the next plan on the same reader.",
    "design_ref": "DESIGN.md section 3 (C01), sections 1-2.5",
    "note": "Trusted: CPython, numpy, the independent SIGPROC encoder/bit packer in vlib/sigfile.py. Plans with gulp/2 < skipback < gulp may be rejected before the first yield or honoured. nsamps >= 1.",
    "technique": "runtime monitoring: reference-stream oracle over yielded blocks + overlap audit + seek/read trace spy",
}
ASSUMPTIONS = [
    "files synthesised by vlib/sigfile.py are well-formed SIGPROC files (independent encoder)",
    "plans with gulp/2 < skipback < gulp may legitimately be rejected (ValueError before the first yield) or honoured; both accepted",
    "nsamps >= 1 (nsamps = 0 is not addressed by the statement)",
]
DEPTHS = (1, 2, 4, 8, 16, 32)
SPLITS12 = ((12,), (5, 7), (3, 4, 5))
SPLITS17 = ((17,), (1, 16), (6, 5, 6))


def RULE(tier):
    return (
        "bounded-exhaustive lattice over (depth in {1,2,4,8,16,32}) x (smallest legal nchans and a wider one) x "
        "(1..3 file splits) x gulp 1..N+1 x all (start,nsamps) x skipback 0..gulp+1 on N=12 (quick: seeded 1-in-k thinning; "
        "thorough: complete, plus N=17) and seeded random plans on streams up to 4096 samples x 64 channels incl. custom "
        "allocators. A plan is non-trivial when it yields >= 2 blocks or is rejected; distinct = distinct (config, plan) records."
    )


SUITE_CONTRACTS = True   # thorough tier also runs the repository's own tests under vlib/suite_plugin.py
_SUITE_REQUIRED = ['suite:block_value_checks', 'suite:plans_drained']


def REQUIRED(tier):
    return _required(tier) + (_SUITE_REQUIRED if tier == "thorough" else [])


def _required(tier):
    return ["regime:empty_request", "data:zero_packed_bytes", "regime:relative_names_then_chdir", "lockstep_plan_pairs", "deferred_plan_iterations",
        "plans_accepted", "plans_rejected_before_yield", "blocks_yielded", "regime:lastread<skipback", "regime:gulp>nsamps",
        "regime:block_crosses_file_boundary", "regime:partial_last_block_before_eof", "regime:gulp_not_dividing",
        "regime:start>0", "regime:skipback>gulp/2", "regime:skipback>=gulp", "overlap_audits", "spy:creadinto", "spy:seek",
        "regime:continuation_plans_on_one_reader", "regime:packed_block_over_1KiB_odd_byte_count", "regime:names_held_another_geometry_of_equal_size", "regime:plan_abandoned_before_the_next", "regime:abandoned_plan_finalised_between_blocks_of_the_next", "regime:names_held_a_file_with_another_header_length", "consumer_overwrites_yielded_block", "plans_from_a_worker_thread",
    ]


def EXHAUSTIVE(tier):
    return tier == "thorough"


# --------------------------------------------------------------------------
def _configs(N, splits):
    for nbits in DEPTHS:
        for wider in (0, 1):
            nch = sigfile.legal_nchans(nbits, 1) * (1 if not wider else 3)
            for split in splits:
                yield {"N": N, "nbits": nbits, "nchans": nch, "split": list(split)}


def _lattice_plans(N):
    for gulp in range(1, N + 2):
        for start in range(N):
            for nsamps in range(1, N - start + 1):
                for skipback in range(gulp + 2):
                    yield (gulp, start, nsamps, skipback)


def cases(tier, seed):
    rng = np.random.default_rng([seed, 101])
    BATCH = 400
    # --- lattice
    lattices = [(12, SPLITS12)] if tier == "quick" else [(12, SPLITS12), (17, SPLITS17)]
    keep = 0.12 if tier == "quick" else 1.0
    for N, splits in lattices:
        if N == 17 and tier == "thorough":
            keepN = 0.35
        else:
            keepN = keep
        for cfg in _configs(N, splits):
            plans = list(_lattice_plans(N))
            if keepN < 1.0:
                sel = rng.random(len(plans)) < keepN
                plans = [p for p, s in zip(plans, sel) if s]
            for i in range(0, len(plans), BATCH):
                yield {"cfg": cfg, "dseed": int(seed), "plans": plans[i : i + BATCH]}
    # --- one long narrow stream per sub-byte depth: packed blocks of more than 1 KiB whose byte count is odd
    for nbits, nch in ((4, 2), (2, 4), (1, 8), (4, 6)):
        yield {"cfg": {"N": 3001, "nbits": nbits, "nchans": nch, "split": [3001] if nbits != 2 else [1500, 1501]}, "dseed": int(seed) + 700 + nbits,
               "plans": [(1027, 0, 3001, 0), (2999, 1, 3000, 0), (1031, 0, 3001, 5), (3001, 0, 3001, 0)], "alloc": "default", "long_packed": True}
    # --- segment-wise processing on one reader: overlapping plans made of full blocks only, each continuing where the previous one stopped
    for k in range(8 if tier == "quick" else 120):
        g = int(rng.integers(2, 21)); sb = int(rng.integers(1, g)); m = int(rng.integers(0, 4))
        seg = g + m * (g - sb) if k % 4 else int(rng.integers(1, g + 1))      # k%4 == 0: the whole segment fits one gulp
        nbits = int(rng.choice(DEPTHS))
        nch = sigfile.legal_nchans(nbits, int(rng.integers(1, 17)))
        N = seg * int(rng.integers(3, 7)) + int(rng.integers(0, seg))
        nfiles = int(rng.integers(1, 3))
        split = [N] if nfiles == 1 else [N // 2, N - N // 2]
        yield {"cfg": {"N": N, "nbits": nbits, "nchans": nch, "split": split}, "dseed": int(seed) + 800 + k, "chain": True, "alloc": "default",
               "plans": [(g, st, min(seg, N - st), sb if g > sb else 0) for st in range(0, N, seg)]}
    for k in range(3 if tier == "quick" else 30):
        nbits = int(rng.choice(DEPTHS))
        Nt = int(rng.integers(20, 200))
        yield {"cfg": {"N": Nt, "nbits": nbits, "nchans": sigfile.legal_nchans(nbits, int(rng.integers(1, 17))), "split": [Nt // 2, Nt - Nt // 2]}, "dseed": int(seed) + 900 + k, "threaded": True, "plans": []}
    # --- random plans on larger streams
    nrand = 60 if tier == "quick" else 1500
    for k in range(nrand):
        nbits = int(rng.choice(DEPTHS))
        nch = sigfile.legal_nchans(nbits, int(rng.integers(1, 65)))
        N = int(rng.integers(20, 4097 if tier == "thorough" else 600))
        nfiles = int(rng.integers(1, 4))
        cuts = sorted(rng.choice(np.arange(1, N), size=nfiles - 1, replace=False).tolist()) if nfiles > 1 else []
        split = [b - a for a, b in zip([0] + cuts, cuts + [N])]
        plans = []
        for _ in range(12):
            start = int(rng.integers(0, N))
            nsamps = int(rng.integers(1, N - start + 1))
            gulp = int(rng.choice([1, 2, 3, int(rng.integers(1, N + 5)), max(1, nsamps // int(rng.integers(1, 9))), nsamps, nsamps + 1]))
            ge = min(gulp, nsamps)
            skipback = int(rng.choice([0, 1, ge // 2, max(0, ge // 2 - 1), ge // 2 + 1, ge - 1 if ge > 1 else 0, ge, int(rng.integers(0, ge + 2))]))
            plans.append((gulp, start, nsamps, skipback))
        plans.append((int(rng.integers(1, N + 1)), int(rng.integers(0, N)), 0, 0))   # an explicit empty request
        cfg_r = {"N": N, "nbits": nbits, "nchans": nch, "split": split}
        if nbits < 8 and k % 2:
            cfg_r["sparse"] = True     # blanked stretches: whole packed bytes equal to zero between non-zero ones
        if k % 6 == 1:
            yield {"cfg": {"N": N, "nbits": nbits, "nchans": nch, "split": split}, "dseed": int(seed) + 1000 + k, "plans": [], "two_readers": True}
        yield {"cfg": cfg_r, "dseed": int(seed) + 1000 + k, "relchdir": k % 5 == 3,
               "plans": plans, "alloc": ["default", "numpy", "bytearray", "mmap"][k % 4]}


# --------------------------------------------------------------------------
_spy = {"reads": [], "installed": False}


def setup_worker(ctx):
    from sigpyproc.io.fileio import FileReader

    if _spy["installed"]:
        return
    o_read, o_seek = FileReader.creadinto, FileReader.seek

    def creadinto(self, read_buffer, unpack_buffer=None):
        pos0 = self.cur_data_pos_stream
        n = o_read(self, read_buffer, unpack_buffer)
        _spy["reads"].append(("r", pos0, n, len(memoryview(read_buffer))))
        return n

    def seek(self, offset, whence=0):
        r = o_seek(self, offset, whence)
        _spy["reads"].append(("s", offset, whence, self.cur_data_pos_stream))
        return r

    FileReader.creadinto = creadinto
    FileReader.seek = seek
    _spy["installed"] = True


def make_data(cfg, dseed):
    rng = np.random.default_rng([dseed, cfg["N"], cfg["nbits"], cfg["nchans"]])
    N, nbits, nch = cfg["N"], cfg["nbits"], cfg["nchans"]
    if nbits in (16, 32):
        # unique ids: the value identifies (sample, channel)
        ids = (np.arange(N * nch).reshape(N, nch) * 7 + 3) % (65536 if nbits == 16 else 1 << 22)
        return ids.astype(np.uint16 if nbits == 16 else np.float32)
    if cfg.get("sparse"):
        X = sigfile.random_samples(rng, N, nch, nbits)
        per = 8 // nbits
        flat = X.reshape(-1)
        groups = flat.reshape(-1, per)
        groups[rng.random(groups.shape[0]) < 0.5] = 0          # half of the packed bytes are exactly zero
        return flat.reshape(N, nch)
    for _ in range(50):
        X = sigfile.random_samples(rng, N, nch, nbits)
        if len({r.tobytes() for r in X}) == N:
            return X
    return X


_ALLOC = {
    "default": None,
    "numpy": lambda n: np.zeros(n, dtype=np.uint8),
    "bytearray": bytearray,
    "mmap": lambda n: mmap.mmap(-1, n),
}


def _files(ctx, cfg, dseed):
    key = (tuple(sorted((k, tuple(v) if isinstance(v, list) else v) for k, v in cfg.items())), dseed)
    cache = ctx.notes.setdefault("_filecache", {})
    if key not in cache:
        if len(cache) > 40:
            cache.clear()
        X = make_data(cfg, dseed)
        d = os.path.join(ctx.tmp, f"c{len(os.listdir(ctx.tmp))}")
        os.makedirs(d)
        alt = [b for b in (1, 2, 4, 8, 16, 32) if b != cfg["nbits"] and (cfg["nchans"] * cfg["nbits"]) % b == 0]
        if dseed % 3 == 0 and alt:
            # the same names held another observation of exactly the same size a moment ago (other depth x channel count, same bytes per sample),
            # and this process has opened it: nothing of that may survive in what is read next
            from sigpyproc.readers import FilReader

            nb2 = alt[dseed % len(alt)]
            cfg2 = dict(cfg, nbits=nb2, nchans=cfg["nchans"] * cfg["nbits"] // nb2)
            old_paths = sigfile.write_split(d, make_data(cfg2, dseed + 1), nb2, cfg["split"])
            f0 = FilReader(old_paths if len(old_paths) > 1 else old_paths[0])
            f0.read_block(0, 1)
            ctx.count("regime:names_held_another_geometry_of_equal_size")
        if dseed % 3 == 1:
            # ... or a file set with longer headers (another source name) and other samples, written by something else than the library
            from sigpyproc.readers import FilReader

            old_paths = sigfile.write_split(d, make_data(cfg, dseed + 2), cfg["nbits"], cfg["split"], source_name="J1234-5678_drift_scan_field_" * 3)
            f0 = FilReader(old_paths if len(old_paths) > 1 else old_paths[0])
            f0.read_block(0, 1)
            ctx.count("regime:names_held_a_file_with_another_header_length")
        paths = sigfile.write_split(d, X, cfg["nbits"], cfg["split"])
        cache[key] = (X, paths)
    return cache[key]


def run_case(case, ctx):
    from sigpyproc.readers import FilReader

    cfg = case["cfg"]
    X, paths = _files(ctx, cfg, case["dseed"])
    Xf = X.astype(np.float64)
    cwd0 = os.getcwd()
    if case.get("relchdir"):
        # opened by relative names; the process then moves to a directory that holds same-named files with other samples
        ddir = os.path.dirname(paths[0])
        decoy = os.path.join(ddir, "elsewhere")
        if not os.path.isdir(decoy):
            os.makedirs(decoy)
            for pth in paths:
                raw = open(pth, "rb").read()
                hl = sigfile.parse_file(pth)[1]
                with open(os.path.join(decoy, os.path.basename(pth)), "wb") as fh:
                    fh.write(raw[:hl] + bytes((b ^ 0x55) for b in raw[hl:]))
        os.chdir(ddir)
        try:
            fil = FilReader([os.path.basename(p) for p in paths] if len(paths) > 1 else os.path.basename(paths[0]))
        finally:
            os.chdir(decoy)
        ctx.count("regime:relative_names_then_chdir")
    else:
        fil = FilReader(paths if len(paths) > 1 else paths[0])
    try:
        _run_plans(case, ctx, cfg, fil, Xf)
    finally:
        os.chdir(cwd0)


def _two_readers(case, ctx, cfg, fil, Xf):
    """Two plans alive at the same time on two reader objects (blocks compared only after the other reader has advanced), and a plan that is
    created first and iterated after the reader has been used for something else."""
    from sigpyproc.readers import FilReader

    X2, paths2 = _files(ctx, cfg, case["dseed"] + 7919)
    X2f = X2.astype(np.float64)
    fil2 = FilReader(paths2 if len(paths2) > 1 else paths2[0])
    N, nch = cfg["N"], cfg["nchans"]
    one = {"cfg": cfg, "dseed": case["dseed"], "plans": [], "two_readers": True}
    for gulp in (3, max(1, N // 4), N):
        ctx.evaluated(); ctx.count("lockstep_plan_pairs")
        a_blocks, b_blocks = [], []
        try:
            for (na, ia, da), (nb, ib, db) in zip(fil.read_plan(gulp=gulp, quiet=True, description="verif"), fil2.read_plan(gulp=gulp, quiet=True, description="verif")):
                if a_blocks:   # the block reader A delivered in the previous round, looked at after reader B has moved on
                    pass
                a_blocks.append(np.array(da, dtype=np.float64, copy=True))
                b_blocks.append(np.array(db, dtype=np.float64, copy=True))
                if not np.array_equal(np.asarray(da, dtype=np.float64), a_blocks[-1]):
                    ctx.violation("lockstep:block-changed-while-other-reader-advanced", f"gulp={gulp}: reader A's block changed when reader B delivered its block", one)
                    return
        except Exception as exc:  # noqa: BLE001
            ctx.violation(f"lockstep-raised:{type(exc).__name__}@{exc_site(exc)}", fmt_exc(exc), one)
            return
        ga = np.concatenate(a_blocks).reshape(-1, nch) if a_blocks else np.zeros((0, nch))
        gb = np.concatenate(b_blocks).reshape(-1, nch) if b_blocks else np.zeros((0, nch))
        if not np.array_equal(ga, Xf) or not np.array_equal(gb, X2f):
            ctx.violation("lockstep:stream-mismatch", f"gulp={gulp}: two readers iterated in lock-step do not each deliver their own file ({'A' if not np.array_equal(ga, Xf) else 'B'} wrong)", one)
            return
    # a plan created now, iterated after the reader has been positioned elsewhere
    for (st, ns, gulp) in ((N // 3, N - N // 3, max(1, N // 5)), (0, N, 4)):
        if ns < 1:
            continue
        ctx.evaluated(); ctx.count("deferred_plan_iterations")
        try:
            plan = fil.read_plan(gulp=gulp, start=st, nsamps=ns, quiet=True, description="verif")
            other = fil.read_plan(gulp=gulp, start=0, nsamps=max(1, N // 2), quiet=True, description="verif")
            fil.read_block(N - 1, 1)
            got = np.concatenate([np.array(d_, dtype=np.float64) for _, _, d_ in plan]).reshape(-1, nch)
            got2 = np.concatenate([np.array(d_, dtype=np.float64) for _, _, d_ in other]).reshape(-1, nch)
        except Exception as exc:  # noqa: BLE001
            ctx.violation(f"deferred-plan-raised:{type(exc).__name__}@{exc_site(exc)}", f"plan(start={st}, nsamps={ns}, gulp={gulp}) created before a read_block, iterated after it: {fmt_exc(exc)}", one)
            return
        if not np.array_equal(got, Xf[st : st + ns]) or not np.array_equal(got2, Xf[: max(1, N // 2)]):
            ctx.violation("deferred-plan:stream-mismatch", f"a plan for [{st},{st + ns}) created before other reads on the same reader and iterated afterwards delivers other samples", one)
            return
    ctx.nontrivial_case({"two_readers": True, "cfg": cfg, "dseed": case["dseed"]})


def _threaded(case, ctx, cfg, fil, Xf):
    """A plan driven from a worker thread with the documented defaults (no description given): the calling context is not part of the request."""
    import threading

    N = cfg["N"]
    out = {}

    def work():
        try:
            out["blocks"] = [(int(n_), np.array(d_, dtype=np.float64, copy=True)) for n_, _, d_ in fil.read_plan(gulp=max(1, N // 3), start=1, nsamps=N - 1, skipback=0, quiet=True)]
        except BaseException as exc:  # noqa: BLE001
            out["err"] = exc

    th = threading.Thread(target=work)
    th.start(); th.join()
    ctx.evaluated(); ctx.count("plans_from_a_worker_thread")
    one = {"cfg": cfg, "dseed": case["dseed"], "plans": [], "threaded": True}
    if "err" in out:
        ctx.violation(f"plan-raised-in-worker-thread:{type(out['err']).__name__}@{exc_site(out['err'])}", f"read_plan(gulp, start=1, nsamps=N-1, quiet=True) started from a worker thread raised {fmt_exc(out['err'])}", one)
        return
    got = np.concatenate([b for _, b in out["blocks"]]) if out["blocks"] else np.zeros(0)
    if got.size != (N - 1) * cfg["nchans"] or not np.array_equal(got, Xf[1:].ravel()):
        ctx.violation("stream-mismatch-values:worker-thread", "blocks delivered to a worker thread differ from the stream", one)
    else:
        ctx.nontrivial_case(one)


def _run_plans(case, ctx, cfg, fil, Xf):
    if case.get("two_readers"):
        return _two_readers(case, ctx, cfg, fil, Xf)
    if case.get("threaded"):
        return _threaded(case, ctx, cfg, fil, Xf)
    if fil.header.nsamples != cfg["N"]:
        ctx.violation("reader-nsamples", f"reader infers {fil.header.nsamples} samples, file set holds {cfg['N']}", case)
        return
    alloc = _ALLOC[case.get("alloc", "default")]
    bounds = np.cumsum(cfg["split"])[:-1].tolist()
    if case.get("chain"):
        ctx.count("regime:continuation_plans_on_one_reader")
    if case.get("long_packed"):
        ctx.count("regime:packed_block_over_1KiB_odd_byte_count")
    for ip, plan in enumerate(case["plans"]):
        gulp, start, nsamps, skipback = (int(v) for v in plan)
        one = {"cfg": cfg, "dseed": case["dseed"], "plans": [list(plan)], "alloc": case.get("alloc", "default"), "relchdir": bool(case.get("relchdir"))}
        if case.get("chain"):     # the history matters: the replay record holds every plan run on this reader so far
            one = dict(one, plans=[list(q) for q in case["plans"][: ip + 1]], chain=True)
            if case["dseed"] % 2 and nsamps >= 2:
                # the consumer looks at one block and drops the plan (break out of a loop): the next plan is served like any other
                it = fil.read_plan(gulp=max(1, nsamps // 2), start=start, nsamps=nsamps, quiet=True, description="v")
                next(it)
                if case["dseed"] % 4 == 3:
                    # the dropped plan is still referenced (a local of the caller's loop) when the next plan starts, and goes away
                    # (garbage collection / close) while that next plan is between two of its blocks
                    _pending.append(it)
                    del it
                else:
                    if ip % 2:
                        it.close()
                    del it
                ctx.count("regime:plan_abandoned_before_the_next")
        check_plan(ctx, fil, Xf, cfg, bounds, gulp, start, nsamps, skipback, alloc, one)
        _pending.clear()


def _regime(gulp, start, nsamps, skipback):
    ge = min(gulp, nsamps)
    if skipback >= ge:
        return "skipback>=gulp"
    if 2 * skipback > ge:
        return "gulp/2<skipback<gulp"
    return "skipback<=gulp/2"


_pending = []      # suspended plans abandoned by their consumer but not yet finalised


def check_plan(ctx, fil, Xf, cfg, bounds, gulp, start, nsamps, skipback, alloc, one):
    nch = cfg["nchans"]
    N = cfg["N"]
    if nsamps == 0:
        # nothing was requested: refusing the plan (ValueError before any block) or yielding nothing are both fine; delivering samples is not
        ctx.evaluated(); ctx.count("regime:empty_request")
        got = []
        try:
            for nsamps_r, ii, data in fil.read_plan(gulp=gulp, start=start, nsamps=0, skipback=skipback, quiet=True, description="verif"):
                got.append(int(nsamps_r))
        except ValueError:
            pass
        except Exception as exc:  # noqa: BLE001
            ctx.violation(f"reject-not-ValueError[empty-request]:{type(exc).__name__}", f"plan for 0 samples rejected with {fmt_exc(exc)}", one)
            return
        if got:
            ctx.violation("empty-request-delivered-samples", f"read_plan(start={start}, nsamps=0, gulp={gulp}) yielded {len(got)} block(s) holding {sum(got)} samples", one)
        return
    if cfg.get("sparse"):
        ctx.count("data:zero_packed_bytes")
    ge = min(gulp, nsamps)
    regime = _regime(gulp, start, nsamps, skipback)
    ctx.evaluated()
    ctx.count(f"regime:{'skipback>=gulp' if regime == 'skipback>=gulp' else ('skipback>gulp/2' if regime != 'skipback<=gulp/2' else 'skipback<=gulp/2')}")
    _spy["reads"].clear()
    blocks = []
    err = None
    try:
        kw = {"allocator": alloc} if alloc is not None else {}
        for nsamps_r, ii, data in fil.read_plan(gulp=gulp, start=start, nsamps=nsamps, skipback=skipback, quiet=True, description="verif", **kw):
            blocks.append((int(nsamps_r), int(ii), np.array(data, dtype=np.float64, copy=True)))
            if _pending:
                import gc

                old = _pending.pop()
                if len(blocks) % 2:
                    old.close()
                del old
                gc.collect()
                ctx.count("regime:abandoned_plan_finalised_between_blocks_of_the_next")
            if (gulp + start + skipback) % 3 == 0:
                # a consumer that uses the yielded block as scratch space (as the library's own masking does): the next block still comes from the file
                try:
                    np.asarray(data)[...] = 0
                    ctx.count("consumer_overwrites_yielded_block")
                except (ValueError, TypeError):
                    pass
    except Exception as exc:  # noqa: BLE001
        err = exc
    trace = list(_spy["reads"])
    ctx.count("spy:creadinto", sum(1 for t in trace if t[0] == "r"))
    ctx.count("spy:seek", sum(1 for t in trace if t[0] == "s"))
    ctx.count("blocks_yielded", len(blocks))
    tag = f"{regime}"
    if start + nsamps < N:
        tag += ",ends-before-eof"

    if err is not None:
        if blocks:
            ctx.violation(f"error-after-yield[{tag}]:{type(err).__name__}@{exc_site(err)}",
                          f"{fmt_exc(err)} raised after {len(blocks)} block(s) were yielded", one, plan=[gulp, start, nsamps, skipback])
            return
        if not isinstance(err, ValueError):
            ctx.violation(f"reject-not-ValueError[{tag}]:{type(err).__name__}", f"plan rejected with {fmt_exc(err)}", one)
            return
        ctx.count("plans_rejected_before_yield")
        ctx.nontrivial_case(one)
        if regime == "skipback<=gulp/2":
            ctx.violation(f"rejected-honourable-plan[{tag}]@{exc_site(err)}",
                          f"plan with skipback <= gulp/2 rejected: {fmt_exc(err)}", one, plan=[gulp, start, nsamps, skipback])
        return

    # accepted
    if regime == "skipback>=gulp":
        ctx.violation("accepted-skipback>=gulp", f"plan with skipback {skipback} >= effective gulp {ge} yielded {len(blocks)} blocks", one)
        return
    ctx.count("plans_accepted")
    if len(blocks) >= 2:
        ctx.nontrivial_case(one)
    # regimes (computed from the plan, not from the implementation)
    step = ge - skipback
    if gulp > nsamps:
        ctx.count("regime:gulp>nsamps")
    if start > 0:
        ctx.count("regime:start>0")
    if nsamps % step:
        ctx.count("regime:gulp_not_dividing")
        if nsamps % step < skipback:
            ctx.count("regime:lastread<skipback")
        if start + nsamps < N:
            ctx.count("regime:partial_last_block_before_eof")
    pieces = []
    pos = start  # absolute sample index where the next block should begin
    for k, (nr, ii, data) in enumerate(blocks):
        if data.size % nch:
            ctx.violation(f"block-not-whole-samples[{tag}]", f"block {k} holds {data.size} values, not a multiple of nchans={nch}", one)
            return
        ns = data.size // nch
        if nr != ns:
            ctx.violation(f"reported-count-mismatch[{tag}]", f"block {k}: reported {nr} samples, array holds {ns}", one)
            return
        if ns > gulp or ns == 0:
            ctx.violation(f"block-size[{tag}]", f"block {k} holds {ns} samples (gulp {gulp})", one)
            return
        if ii != k:
            ctx.violation(f"block-index[{tag}]", f"block {k} reported index {ii}", one)
            return
        blk = data.reshape(ns, nch)
        lo = pos - (skipback if k else 0)
        if any(lo < b < lo + ns for b in bounds):
            ctx.count("regime:block_crosses_file_boundary")
        if k:
            ctx.count("overlap_audits")
            prev_tail = blocks[k - 1][2].reshape(-1, nch)[-skipback:] if skipback else blk[:0]
            if ns <= skipback:
                # weakest reading of the statement: a block no longer than skipback only repeats the previous tail
                ctx.count("degenerate_tail_blocks")
                if not np.array_equal(blk, prev_tail[:ns]):
                    ctx.violation(f"overlap-not-tail-of-previous[{tag}]", f"block {k} ({ns} <= skipback samples) does not repeat the tail of block {k-1}", one)
                    return
                continue
            if skipback and not np.array_equal(blk[:skipback], prev_tail):
                ctx.violation(f"overlap-not-tail-of-previous[{tag}]", f"leading {skipback} samples of block {k} differ from the tail of block {k-1}", one)
                return
            pieces.append(blk[skipback:])
            pos += ns - skipback
        else:
            pieces.append(blk)
            pos += ns
    got = np.concatenate(pieces) if pieces else np.zeros((0, nch))
    want = Xf[start : start + nsamps]
    if got.shape != want.shape or not np.array_equal(got, want):
        kind = "length" if got.shape != want.shape else "values"
        first = None
        if kind == "values":
            bad = np.argwhere(np.any(got != want, axis=1))
            first = int(bad[0][0])
        ctx.violation(f"stream-mismatch-{kind}[{tag}]",
                      f"reconstructed stream has {got.shape[0]} samples, want {want.shape[0]}; first differing sample {first}", one,
                      nblocks=len(blocks), sizes=[b[0] for b in blocks][:20])
        return
    # independent byte trace: no read may start outside the requested byte range
    stride = nch * cfg["nbits"] // 8
    for t in trace:
        if t[0] == "r" and t[1] is not None and t[2] and not (start * stride <= t[1] < (start + nsamps) * stride):
            ctx.violation(f"read-starts-outside-range[{tag}]", f"creadinto began at stream byte {t[1]} outside [{start*stride},{(start+nsamps)*stride})", one)
            return
    if ctx.evaluations % 5000 == 1:
        ctx.sample({"cfg": cfg, "plan": {"gulp": gulp, "start": start, "nsamps": nsamps, "skipback": skipback},
                    "blocks": [[b[0], b[1]] for b in blocks][:12], "trace": [list(t) for t in trace][:16]})
