"""C20 - a partially written output is always a valid prefix of the final file."""
from __future__ import annotations

import os
import shutil
import subprocess
import sys

import numpy as np

from vlib import c20_scen, sigfile, strace_log
from vlib.core import exc_site, fmt_exc

PROPERTY = "C20"
LEVEL = "fault_enumeration"
CLAIM = {
    "text": "Fault enumeration by runtime monitoring, three monitors: (1) a FileWriter.write/cwrite hook re-reads the output through a fresh descriptor after every write of every streaming writer (invert, mask, downsample, extract_samps/chans/bands, subband, zero-DM, requantize, block/time-series/spectrum writers) for several gulps and requires a complete header, each snapshot extending the previous one and being a prefix of the final file, and a complete file when the call returns; (2) the same calls run in a child under strace and an offline checker audits every write/lseek/dup/ftruncate/rename/mmap syscall (append-only, header in one write, payloads == final file), i.e. crash points between any two syscalls; (3) real crashes: for every k a child process is killed with os._exit right after its k-th write and the surviving file(s) must open with FilReader and hold exactly the first floor(datalen/stride) samples of the uninterrupted result; plus every byte-length truncation of a final file at or after the header. Writers producing more than 1 MiB per product are included; the thorough tier also runs the repository's own test-suite with an append-only contract on every FileWriter.write/cwrite. Rounds 7-8 added: products ending in all-zero blocks judged against their independently known size, the two-pass cleaner on a sub-range, and writers run under a file-size limit that cuts the last block (they must raise, or what they return is complete). Round 9 added: a dedispersed block written with to_file. Round 11 added: 260 products of one extract_chans batch open side by side, snapshots after every write.",
    "design_ref": "DESIGN.md section 3 (C20), 2.4",
    "note": "Crash model = process death after a completed syscall (no power loss, no torn single write). Trusted: strace -f -y output format, vlib/sigfile.py parser. Truncated files are read with read_block (the reader refuses a trailing partial sample only in read_plan).",
    "technique": "runtime monitoring with fault injection: snapshot-after-every-write hook, strace write-log audit, kill-after-k-th-write crash enumeration, exhaustive byte-length truncation",
}
ASSUMPTIONS = ["kill points are after completed FileWriter.write/cwrite calls; syscall-level points are covered by the append-only audit of the strace log"]
RULE = ("snapshot: 12 writers x gulps {1,5,7,24,1000}; kill: 12 writers x gulp 5 x every k in 0..(writes) (a child per k); truncate: every byte length from hdrlen to the end "
        "for outputs at depths {1,2,4,8,16,32}; strace: writers under strace -f -y. Non-trivial = a crash/truncation point strictly inside the data section; "
        "distinct = distinct (writer, gulp, k) / (depth, length)")
MAX_K = 14
MAX_K_BATCHED = 34


SUITE_CONTRACTS = True   # thorough tier also runs the repository's own tests under vlib/suite_plugin.py
_SUITE_REQUIRED = ['suite:cwrite_checks', 'suite:write_checks']


def REQUIRED(tier):
    return _required(tier) + (_SUITE_REQUIRED if tier == "thorough" else [])


def _required(tier):
    return ["snapshots_taken", "snapshot_prefix_checks", "kill_children", "kill:died_at_point", "kill:survivor_opened", "truncations", "strace_runs", "strace_write_events",
            "writers_covered", "snapshot:preexisting_output", "kill:preexisting_output", "snapshot:product_over_1MiB", "kill:unwound_by_exception", "strace:header_over_512_bytes_confirmed", "rewrites_of_an_opened_name", "rewrite:equal_length_products", "snapshot:product_ending_in_zero_blocks", "diskfull:writer_raised", "truncations:tim_product", "snapshot:hundreds_of_products_open_side_by_side"]


def EXHAUSTIVE(tier):
    return True


def cases(tier, seed):
    gulps = (5, 24) if tier == "quick" else (1, 5, 7, 24, 1000)
    for w in c20_scen.WRITERS:
        for g in gulps:
            yield {"kind": "snapshot", "writer": w, "gulp": g}
        yield {"kind": "snapshot", "writer": w, "gulp": 5, "pre": True}   # re-run over an existing, longer output of the same name
    for w in c20_scen.ZERO_TAIL_WRITERS:
        yield {"kind": "snapshot", "writer": w, "gulp": 512}
    for w in c20_scen.MANY_WRITERS:
        yield {"kind": "snapshot", "writer": w, "gulp": 10}
    for w in c20_scen.BIG_WRITERS:
        yield {"kind": "snapshot", "writer": w, "gulp": 65536}
        for k in (1, 3, 5):
            yield {"kind": "kill", "writer": w, "gulp": 65536, "k": k}
    for w in c20_scen.WRITERS:
        for k in range(MAX_K_BATCHED if w.endswith("_b2") else MAX_K):
            yield {"kind": "kill", "writer": w, "gulp": 5, "k": k}
        for k in (0, 2, 4):
            yield {"kind": "kill", "writer": w, "gulp": 5, "k": k, "pre": True}
        for k in (1, 3, 6):     # the same points reached by an exception that unwinds the writer (Ctrl-C, a failing read) instead of a hard death
            yield {"kind": "kill", "writer": w, "gulp": 5, "k": k, "interrupt": True}
        if tier == "thorough":
            for k in range(0, 30, 1):
                yield {"kind": "kill", "writer": w, "gulp": 1, "k": k}
    for w in c20_scen.LIMIT_WRITERS:
        for cut in (20000, 4096) if tier == "quick" else (20000, 4096, 32768, 40000, 8192):
            yield {"kind": "diskfull", "writer": w, "cut": cut}
    for nbits in (1, 2, 4, 8, 16, 32):
        yield {"kind": "truncate", "nbits": nbits, "seed": int(seed)}
    for i in range(5):
        yield {"kind": "rewrite", "seed": int(seed) * 5 + i}
    sw = ("invert_freq", "extract_samps", "extract_chans", "subband", "ts_to_tim") if tier == "quick" else c20_scen.WRITERS
    for w in sw:
        yield {"kind": "strace", "writer": w, "gulp": 5}
    for w in ("extract_samps", "extract_bands", "ts_to_tim"):    # output headers longer than 512 bytes (long source name and raw-file path)
        yield {"kind": "strace", "writer": w, "gulp": 5, "long": True}


_hook = {"installed": False, "active": None}


def setup_worker(ctx):
    from sigpyproc.io.fileio import FileWriter

    if _hook["installed"]:
        return
    for name in ("write", "cwrite"):
        orig = getattr(FileWriter, name)

        def f(self, arg, _orig=orig, _name=name):
            rec = _hook["active"]
            if rec is not None:
                # append-only at the hook: the write must start at the current end of the file
                try:
                    pos, size = self.file_obj.tell(), os.fstat(self.file_obj.fileno()).st_size
                except (ValueError, OSError, AttributeError):
                    pos = size = None      # the writer holds no open descriptor at this moment: the snapshots taken after the write decide
                if pos != size:
                    rec.setdefault("__not_at_eof__", []).append((self.files[0], _name, pos, size))
            r = _orig(self, arg)
            if rec is not None:
                path = self.files[0]
                with open(path, "rb") as fh:   # fresh descriptor: what another process (or a post-crash reader) sees
                    rec.setdefault(path, []).append((_name, fh.read()))
            return r

        setattr(FileWriter, name, f)
    _hook["installed"] = True


def _newdir(ctx, tag):
    d = os.path.join(ctx.tmp, f"{tag}{len(os.listdir(ctx.tmp))}")
    os.makedirs(d)
    return d


def run_case(case, ctx):
    {"snapshot": _snapshot, "kill": _kill, "truncate": _truncate, "strace": _strace, "rewrite": _rewrite, "diskfull": _diskfull}[case["kind"]](case, ctx)


def _snapshot(case, ctx):
    d = _newdir(ctx, "s")
    rec = {}
    _hook["active"] = rec
    ctx.evaluated()
    ctx.count("writers_covered")
    if case["writer"] in c20_scen.BIG_WRITERS:
        ctx.count("snapshot:product_over_1MiB")
    if case["writer"] in c20_scen.MANY_WRITERS:
        ctx.count("snapshot:hundreds_of_products_open_side_by_side")
    try:
        outs = c20_scen.run_writer(case["writer"], d, case["gulp"], preexisting=bool(case.get("pre")))
        if case.get("pre"):
            ctx.count("snapshot:preexisting_output")
    except Exception as exc:  # noqa: BLE001
        _hook["active"] = None
        ctx.violation(f"writer-raised:{case['writer']}:{type(exc).__name__}@{exc_site(exc)}", fmt_exc(exc), case)
        return
    _hook["active"] = None
    for path, name, pos, size in rec.pop("__not_at_eof__", []):
        ctx.violation(f"write-not-at-eof:{case['writer']}", f"{os.path.basename(path)}: {name} issued at offset {pos} while the file is {size} bytes long (rewrite of earlier bytes, e.g. a patched header)", case)
        return
    # the call has returned: the files must be complete *now* (no close/flush by the harness)
    at_return = {p: open(p, "rb").read() for p in outs}
    import gc

    gc.collect()
    final = {p: open(p, "rb").read() for p in outs}
    for p in outs:
        w = case["writer"]
        if at_return[p] != final[p]:
            ctx.violation(f"incomplete-at-return:{w}", f"{os.path.basename(p)}: {len(at_return[p])} bytes when the call returned, {len(final[p])} after the writer object was collected", case)
            return
        snaps = rec.get(p, [])
        if not snaps:
            ctx.violation(f"no-write-observed:{w}", f"{os.path.basename(p)} was produced without any FileWriter.write/cwrite call (hook blind)", case)
            return
        try:
            items, hl = sigfile.parse_header(final[p])
        except Exception as exc:  # noqa: BLE001
            ctx.violation(f"final-header:{w}", f"final file has no complete header: {exc}", case)
            return
        prev = b""
        for i, (name, snap) in enumerate(snaps):
            ctx.count("snapshots_taken")
            ctx.count("snapshot_prefix_checks")
            if len(snap) < hl or snap[:hl] != final[p][:hl]:
                ctx.violation(f"snapshot-header-incomplete:{w}", f"{os.path.basename(p)} after write #{i} ({name}): {len(snap)} bytes on disk, complete header needs {hl}", case, write_index=i)
                return
            if not snap.startswith(prev):
                ctx.violation(f"snapshot-not-extending-previous:{w}", f"{os.path.basename(p)} after write #{i}: earlier bytes were rewritten (prefix of length {len(prev)} changed)", case, write_index=i)
                return
            if not final[p].startswith(snap):
                ctx.violation(f"snapshot-not-prefix-of-final:{w}", f"{os.path.basename(p)} after write #{i}: {len(snap)} bytes on disk are not a prefix of the {len(final[p])}-byte final file", case, write_index=i)
                return
            if len(snap) <= len(prev) and i > 0 and name == "cwrite" and len(snap) == len(prev):
                ctx.count("writes_with_no_growth")
            prev = snap
        if w in c20_scen.ZERO_TAIL_WRITERS:     # the product's size is known independently: header + every requested sample, zeros included
            ctx.count("snapshot:product_ending_in_zero_blocks")
            if len(final[p]) - hl != c20_scen.ZT_N * c20_scen.ZT_NCH:
                ctx.violation(f"incomplete-at-return:{w}:short-file", f"{os.path.basename(p)}: {len(final[p]) - hl} data bytes on disk when the call returned, {c20_scen.ZT_N * c20_scen.ZT_NCH} requested (the product ends in all-zero blocks)", case)
                return
        if prev != final[p]:
            ctx.violation(f"bytes-after-last-write:{w}", f"{os.path.basename(p)}: final file has {len(final[p])} bytes but the last observed write left {len(prev)}", case)
            return
        if len(snaps) >= 3:
            ctx.nontrivial_case(dict(case, file=os.path.basename(p)))
    if case["gulp"] == 5:
        ctx.sample({"writer": case["writer"], "gulp": 5, "files": [os.path.basename(p) for p in outs], "snapshot_sizes": {os.path.basename(p): [len(s) for _, s in rec[p]][:10] for p in outs}})
    shutil.rmtree(d, ignore_errors=True)


def _child(writer, d, gulp, k, strace_out=None, pre=False, flags=()):
    env = dict(os.environ)
    cmd = [sys.executable, "-X", "faulthandler", "-m", "vlib.c20_scen", writer, d, str(gulp), str(k)] + (["pre"] if pre else []) + list(flags)
    if strace_out:
        cmd = ["strace", "-f", "-y", "-xx", "-s", "1000000", "-o", strace_out, "-e",
               "trace=open,openat,write,pwrite64,pwritev,writev,lseek,ftruncate,fallocate,dup,dup2,dup3,fcntl,close,rename,renameat,renameat2,unlink,unlinkat,mmap"] + cmd
    return subprocess.run(cmd, env=env, capture_output=True, text=True, timeout=600, cwd=os.environ.get("VERIF_ROOT", "."))


def _reference(ctx, writer, gulp):
    key = (writer, gulp)
    cache = ctx.notes.setdefault("_ref", {})
    if key not in cache:
        d = _newdir(ctx, "r")
        rec = {}
        _hook["active"] = rec
        try:
            outs = c20_scen.run_writer(writer, d, gulp)
        finally:
            _hook["active"] = None
        nwrites = sum(len(v) for k, v in rec.items() if k != "__not_at_eof__")
        cache[key] = ({os.path.basename(p): open(p, "rb").read() for p in outs}, nwrites)
        shutil.rmtree(d, ignore_errors=True)
    return cache[key]


def _diskfull(case, ctx):
    """The writer runs under a file-size limit that cuts the last block short: it either raises, or what it returns is complete."""
    w = case["writer"]
    ref, nwrites = _reference(ctx, w, 2048)
    (name, want), = list(ref.items())[:1]
    d = _newdir(ctx, "f")
    ctx.evaluated(); ctx.count("diskfull_children")
    try:
        res = _child(w, d, 2048, -1, flags=(f"fsize={len(want) - int(case['cut'])}",))
    except subprocess.TimeoutExpired:
        ctx.skip("child watchdog"); return
    path = os.path.join(d, name)
    got = open(path, "rb").read() if os.path.exists(path) else b""
    if res.returncode == 0:
        ctx.count("diskfull:writer_returned_normally")
        if got != want:
            ctx.violation(f"returned-normally-with-incomplete-product:{w}", f"{name}: the writer returned without an error under a file-size limit, leaving {len(got)} of {len(want)} bytes", case)
            return
    else:
        if "Error" not in res.stderr:
            ctx.violation(f"child-failed:{w}", f"child exited {res.returncode} without an exception: {res.stderr[-300:]}", case)
            return
        ctx.count("diskfull:writer_raised")
        if not want.startswith(got):
            ctx.violation(f"survivor-not-prefix:{w}:after-refused-write", f"{name}: the {len(got)} bytes left behind by the failed writer are not a prefix of the {len(want)}-byte product", case)
            return
    ctx.nontrivial_case(case)
    shutil.rmtree(d, ignore_errors=True)


def _kill(case, ctx):
    from sigpyproc.readers import FilReader
    from sigpyproc.timeseries import TimeSeries

    w, gulp, k = case["writer"], case["gulp"], case["k"]
    ref, nwrites = _reference(ctx, w, gulp)
    if k > nwrites:   # kill point beyond the last write: identical to k == nwrites (runs to completion), already covered
        ctx.count("kill:points_beyond_last_write_not_spawned")
        return
    d = _newdir(ctx, "k")
    ctx.evaluated(); ctx.count("kill_children")
    intr = bool(case.get("interrupt"))
    try:
        res = _child(w, d, gulp, k, pre=bool(case.get("pre")), flags=("interrupt",) if intr else ())
        if case.get("pre"):
            ctx.count("kill:preexisting_output")
        if intr:
            ctx.count("kill:unwound_by_exception")
    except subprocess.TimeoutExpired:
        ctx.skip("child watchdog"); return
    died = res.returncode == (130 if intr else 137)
    if not died and res.returncode != 0:
        ctx.violation(f"child-failed:{w}", f"child exited {res.returncode}: {res.stderr[-400:]}", case)
        return
    ctx.count("kill:died_at_point" if died else "kill:ran_to_completion")
    present = [f for f in os.listdir(d) if f not in ("in.fil", "in2.fil") and not f.endswith(".inf") and not f.startswith(".")]
    started = []
    if os.path.exists(os.path.join(d, ".writes")):
        started = list(dict.fromkeys(open(os.path.join(d, ".writes")).read().split()))
    if died:
        gone = [n for n in started if n not in present]
        if gone:
            ctx.violation(f"started-product-vanished:{w}{':after-exception' if intr else ''}", f"{gone} had received bytes before the interruption after write {k + 1} but no longer exist{' once the writer had unwound' if intr else ''}", case)
            return
    if not died:
        # call returned, process ended with os._exit (no flush / close / atexit): everything must be complete
        for name, want in ref.items():
            got = open(os.path.join(d, name), "rb").read() if name in present else None
            if got != want:
                ctx.violation(f"incomplete-at-return:{w}", f"{name}: {len(got) if got is not None else 'missing'} bytes after os._exit at return, uninterrupted run gives {len(want)}", case)
                return
        shutil.rmtree(d, ignore_errors=True)
        return
    inside = False
    for name in present:
        if case.get("pre") and name in ref:
            stale = sigfile.encode_header(sigfile.std_items(nchans=c20_scen.NCH, nbits=8, source_name="STALE")) + bytes(range(256)) * 8
            if open(os.path.join(d, name), "rb").read() == stale:
                ctx.count("kill:stale_output_not_yet_reopened")  # an older product the writer has not touched yet is not a partial output
                continue
        if name not in ref:
            ctx.violation(f"unexpected-file:{w}", f"{name} exists after the crash but is not an output of the uninterrupted run (temporary file?)", case)
            return
        path = os.path.join(d, name)
        got, want = open(path, "rb").read(), ref[name]
        if not want.startswith(got):
            ctx.violation(f"survivor-not-prefix:{w}", f"{name}: the {len(got)} surviving bytes are not a prefix of the {len(want)}-byte uninterrupted output (kill after write {k})", case)
            return
        try:
            items, hl = sigfile.parse_header(want)
            di = dict(items)
            fil = FilReader(path)
            ctx.count("kill:survivor_opened")
        except Exception as exc:  # noqa: BLE001
            ctx.violation(f"survivor-unreadable:{w}:{type(exc).__name__}", f"{name} ({len(got)} bytes, kill after write {k}) cannot be opened: {fmt_exc(exc)}", case)
            return
        stride_bits = di["nchans"] * di["nbits"]
        ksamp = (len(got) - hl) * 8 // stride_bits
        if fil.header.nsamples != ksamp:
            ctx.violation(f"survivor-nsamples:{w}", f"{name}: reader infers {fil.header.nsamples} samples, {ksamp} complete samples survive", case)
            return
        if ksamp:
            full = sigfile.decode_data(want[hl:], di["nbits"], di["nchans"])
            blk = fil.read_block(0, ksamp).data.T
            if not np.array_equal(blk.astype(np.float64), full[:ksamp].astype(np.float64)):
                ctx.violation(f"survivor-values:{w}", f"{name}: the {ksamp} surviving samples differ from the first {ksamp} samples of the uninterrupted result", case)
                return
            if name.endswith(".tim") and (len(got) - hl) % 4 == 0:
                ts = TimeSeries.from_tim(path)
                if ts.nsamples != ksamp or not np.array_equal(ts.data.astype(np.float64), full[:ksamp, 0].astype(np.float64)):
                    ctx.violation(f"survivor-values-from_tim:{w}", f"{name}: TimeSeries.from_tim differs from the prefix", case)
                    return
        if 0 < len(got) - hl < len(want) - hl:
            inside = True
    if inside:
        ctx.nontrivial_case(case)
    if k == 3:
        ctx.sample({"writer": w, "gulp": gulp, "kill_after_write": k, "survivors": {n: os.path.getsize(os.path.join(d, n)) for n in present}, "full_sizes": {n: len(v) for n, v in ref.items()}})
    shutil.rmtree(d, ignore_errors=True)


def _rewrite(case, ctx):
    """A name the process has already opened is written again with a different product of the same byte length: what the library's own reader
    then returns must be what an independent parse of the bytes on disk gives (header first, complete, readable - for the file that is there now)."""
    from sigpyproc.readers import FilReader

    d = _newdir(ctx, "w")
    p, X = c20_scen.make_input(d, 8, case["seed"])
    out = os.path.join(d, "out.fil")
    kw = {"gulp": 5, "quiet": True, "description": "v"}
    steps = [lambda f: f.downsample(1, 2, out, **kw), lambda f: f.downsample(2, 1, out, **kw), lambda f: f.invert_freq(out, **kw), lambda f: f.extract_samps(0, c20_scen.N, out, **kw)]
    order = [(0, 1), (1, 0), (2, 3), (3, 2), (0, 1, 0)][case["seed"] % 5]
    sizes = []
    for k in order:
        ctx.evaluated(); ctx.count("rewrites_of_an_opened_name")
        steps[k](FilReader(p))
        dd, hl, raw = sigfile.parse_file(out)
        sizes.append(hl + len(raw))
        want = sigfile.decode_data(raw, dd["nbits"], dd["nchans"]).astype(np.float64)
        try:
            o = FilReader(out)
            got = o.read_block(0, o.header.nsamples).data.T.astype(np.float64)
        except Exception as exc:  # noqa: BLE001
            ctx.violation(f"rewritten-product-unreadable:{type(exc).__name__}", f"after rewriting {os.path.basename(out)} ({sizes} bytes): {fmt_exc(exc)}", case)
            return
        if o.header.nchans != dd["nchans"] or got.shape != want.shape or not np.array_equal(got, want):
            ctx.violation("rewritten-product-read-with-stale-header", f"the file now holds {want.shape[0]}x{dd['nchans']} samples; FilReader returns {got.shape[0]}x{o.header.nchans} (sizes of the successive products: {sizes})", case)
            return
    if len(set(sizes)) < len(sizes):
        ctx.count("rewrite:equal_length_products")
    ctx.nontrivial_case(case)
    shutil.rmtree(d, ignore_errors=True)


def _truncate(case, ctx):
    from sigpyproc.readers import FilReader

    nbits = case["nbits"]
    d = _newdir(ctx, "t")
    rng = np.random.default_rng([case["seed"], nbits, 21])
    nch = sigfile.legal_nchans(nbits, 3)
    nbytes_target = 700
    N = max(4, nbytes_target * 8 // (nch * nbits))
    X = sigfile.random_samples(rng, N, nch, nbits)
    src = os.path.join(d, "src.fil")
    sigfile.write_fil(src, X, nbits)
    # produce the final file with the library (extract_samps of everything) so that the file under test is a library output
    out = os.path.join(d, "full.fil")
    FilReader(src).extract_samps(0, N, out, gulp=7, quiet=True, description="v")
    full = open(out, "rb").read()
    items, hl = sigfile.parse_header(full)
    data = sigfile.decode_data(full[hl:], nbits, nch).astype(np.float64)
    cut = os.path.join(d, "cut.fil")
    for L in range(hl, len(full) + 1):
        with open(cut, "wb") as fh:
            fh.write(full[:L])
        ctx.evaluated(); ctx.count("truncations")
        one = dict(case, length=L)
        ks = (L - hl) * 8 // (nch * nbits)
        try:
            fil = FilReader(cut)
            if fil.header.nsamples != ks:
                ctx.violation(f"truncated-nsamples:{nbits}bit", f"length {L} (hdrlen {hl}): reader infers {fil.header.nsamples} samples, {ks} complete samples present", one)
                return
            if ks:
                blk = fil.read_block(0, ks).data.T.astype(np.float64)
                if not np.array_equal(blk, data[:ks]):
                    ctx.violation(f"truncated-values:{nbits}bit", f"length {L}: the {ks} samples read differ from the prefix of the full file", one)
                    return
        except Exception as exc:  # noqa: BLE001
            ctx.violation(f"truncated-unreadable:{nbits}bit:{type(exc).__name__}@{exc_site(exc)}", f"length {L} (hdrlen {hl}, {ks} complete samples): {fmt_exc(exc)}", one)
            return
        if hl < L < len(full):
            ctx.nontrivial_case(one)
    if nbits == 32:
        # the same for a time-series product and its own reader: what survives of a .tim cut at any byte reads as its whole samples
        from sigpyproc.timeseries import TimeSeries

        tname = FilReader(src).collapse(gulp=7, quiet=True, description="v").to_tim(os.path.join(d, "full.tim"))
        tfull = open(tname, "rb").read()
        _, thl = sigfile.parse_header(tfull)
        tdata = np.frombuffer(tfull[thl:], dtype=np.float32)
        tcut = os.path.join(d, "cut.tim")
        for L in range(thl + 1, len(tfull) + 1):
            with open(tcut, "wb") as fh:
                fh.write(tfull[:L])
            ctx.evaluated(); ctx.count("truncations"); ctx.count("truncations:tim_product")
            ks = (L - thl) // 4
            one = dict(case, length=L, product="tim")
            try:
                ts = TimeSeries.from_tim(tcut) if ks else None
                if ks and (ts.data.size != ks or not np.array_equal(np.asarray(ts.data), tdata[:ks])):
                    ctx.violation("truncated-values:tim", f"length {L} (hdrlen {thl}): from_tim returns {ts.data.size} samples, {ks} complete samples present / values differ", one)
                    return
            except Exception as exc:  # noqa: BLE001
                ctx.violation(f"truncated-unreadable:tim:{type(exc).__name__}@{exc_site(exc)}", f"length {L} (hdrlen {thl}, {ks} complete samples): {fmt_exc(exc)}", one)
                return
    ctx.sample({"truncation_sweep": {"nbits": nbits, "nchans": nch, "hdrlen": hl, "file_len": len(full), "lengths_checked": len(full) - hl + 1}})
    shutil.rmtree(d, ignore_errors=True)


def _strace(case, ctx):
    w, gulp = case["writer"], case["gulp"]
    d = _newdir(ctx, "x")
    log = os.path.join(d, "strace.log")
    ctx.evaluated(); ctx.count("strace_runs")
    try:
        res = _child(w, d, gulp, -1, strace_out=log, flags=("long",) if case.get("long") else ())
        if case.get("long"):
            ctx.count("strace:header_over_512_bytes")
    except subprocess.TimeoutExpired:
        ctx.skip("strace child watchdog"); return
    if res.returncode != 0 or not os.path.exists(log):
        ctx.skip(f"strace run failed rc={res.returncode}")
        ctx.notes["strace_fail"] = res.stderr[-300:]
        return
    outs = [os.path.join(d, f) for f in os.listdir(d) if f not in ("in.fil", "in2.fil", "strace.log") and not f.endswith(".inf")]
    if case.get("long"):
        hls = [sigfile.parse_header(open(p, "rb").read())[1] for p in outs]
        if min(hls) <= 512:
            ctx.skip("long-header scenario produced a header of 512 bytes or less")
            return
        ctx.count("strace:header_over_512_bytes_confirmed")
    au = strace_log.Audit(outs)
    au.feed(open(log, errors="replace").read())
    problems = au.finish({p: open(p, "rb").read() for p in outs})
    ctx.count("strace_write_events", au.events)
    if problems:
        kind = "not-append-only" if any("not an append" in p or "ftruncate" in p or "rename" in p or "mmap" in p or "O_TRUNC" in p for p in problems) else "log-mismatch"
        ctx.violation(f"syscall-audit:{kind}:{w}", "; ".join(problems[:4]), case)
        return
    ctx.nontrivial_case(case)
    ctx.sample({"strace": {"writer": w, "audited_files": [os.path.basename(p) for p in outs], "events_on_outputs": au.events, "syscalls": au.syscalls}})
    shutil.rmtree(d, ignore_errors=True)
