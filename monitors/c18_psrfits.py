"""C18 - PSRFITS reads are position-independent and agree with the SIGPROC path."""
from __future__ import annotations

import numbers
import os

import numpy as np

from vlib import psrfits, sigfile
from vlib.core import exc_site, fmt_exc

PROPERTY = "C18"
LEVEL = "exploration"
CLAIM = {
    "text": "Exploration by runtime monitoring on synthetic search-mode PSRFITS files (astropy.io.fits writer independent of the library): 3-5 sub-integrations of 8/16/50 samples, 4/8-bit, NPOL/POL_TYPE in {1 AA+BB, 2 AABB, 4 AABBCRCI, 4 STOKE}, ascending and descending DAT_FREQ, random per-row scales, offsets, weights (incl. zeros) and ZERO_OFF. For every file the reader accepts (opens and reads in full) the whole-file read is compared with a float64 evaluation of ((raw-zero_off)*scl+offs)*wts in descending-frequency order, every (start,nsamps) with the column slice of the whole read, read_plan for every gulp/skipback with the exactly-once stream check, collapse/bandpass/dedisperse/compute_stats with the same calls on a 32-bit SIGPROC file holding the same samples, and header fields must be plain numbers whose channel labels match the data order. Files whose CHAN_BW card disagrees with DAT_FREQ, and reductions with gulps {N/3, nsblk+3, 2*nsblk-1, N}, are included. Rounds 7-8 added: rows of 300-4000 samples (not powers of two) and a ZERO_OFF card written as an integer literal. Round 10 added: per-channel table cells (DAT_FREQ/DAT_WTS/DAT_SCL/DAT_OFFS) wider than the file's band.",
    "design_ref": "DESIGN.md section 3 (C18)",
    "note": "Trusted: astropy.io.fits as the file synthesiser, float64 evaluation of the documented scaling. Layouts the reader refuses (cannot open or cannot read in full) are outside the property's precondition and only counted.",
    "technique": "runtime monitoring: position-lattice differential against the whole-file read + independent float64 reference + cross-reader (PSRFITS vs SIGPROC) differential",
}
ASSUMPTIONS = ["float32 evaluation error gate 1e-5 relative", "SIGPROC twin file is labelled with the true (descending) channel frequencies of the samples"]
RULE = ("files: random (nsub 3..5, NSBLK in {8,16,50}, NBITS in {4,8}, layout, band direction, scales/offsets/weights/ZERO_OFF); per accepted file: all (start,nsamps), "
        "all gulps 1..N+1 x skipback {0,1,gulp//2}, 4 reductions. Non-trivial = request not aligned to sub-integration boundaries or spanning >= 2 sub-integrations; "
        "distinct = distinct (file seed, request)")
LAYOUTS = ((1, "AA+BB"), (2, "AABB"), (4, "AABBCRCI"), (4, "STOKE"))


def REQUIRED(tier):
    return ["files_generated", "files_in_domain", "whole_file_checks", "position_requests", "regime:unaligned_start", "regime:crosses_subint", "plan_checks", "reduction_checks",
            "header_type_checks", "band:ascending", "band:descending", "layout:AABBCRCI", "layout:STOKE", "mutation_checks", "regime:partial_last_subint", "regime:chan_bw_card_disagrees_with_dat_freq", "regime:path_previously_held_another_file", "regime:unit_scales_nonzero_offsets", "plan:allocator_option", "subband_requests", "regime:rows_longer_than_256_samples", "regime:zero_off_card_is_an_integer", "regime:table_cells_wider_than_the_band", "regime:wide_cells_with_two_polarisations_in_the_product"]


def cases(tier, seed):
    n = 16 if tier == "quick" else 300
    for i in range(n):
        yield {"fseed": int(seed) * 100003 + i, "force": i % 8}
    for i, (f, rows) in enumerate(((2, 300), (3, 600), (7, 1000)) if tier == "quick" else ((2, 300), (3, 600), (7, 1000), (6, 257), (1, 4000))):
        yield {"fseed": int(seed) * 100003 + 5000 + i, "force": f, "big_rows": rows}     # long rows (NSBLK of hundreds to thousands, not a power of two)


def _gen(case, ctx, path=None):
    rng = np.random.default_rng([case["fseed"], 18])
    f = case["force"]
    npol, pol = LAYOUTS[[2, 3, 2, 3, 0, 1, 2, 3][f]] if f < 8 else LAYOUTS[int(rng.integers(0, 4))]
    nbits = [8, 4, 4, 8, 8, 8, 8, 4][f]
    ascending = bool(f % 2)
    nsub = int(rng.integers(3, 6))
    nsblk = int(rng.choice([8, 16, 50]))
    nchan = int(rng.choice([4, 8, 16]))
    if case.get("big_rows"):
        nsub, nsblk, nchan = 2 + case["fseed"] % 2, int(case["big_rows"]), 4
        ctx.count("regime:rows_longer_than_256_samples")
    f0 = float(rng.uniform(700, 3000))
    bw = float(rng.choice([0.5, 1.0, 8.0, 0.1, 0.547]))
    freqs = f0 + bw * np.arange(nchan) * (1 if ascending else -1)
    raw = rng.integers(0, 1 << nbits, size=(nsub, nsblk, npol, nchan))
    scl = rng.uniform(0.5, 2.0, size=(nsub, npol, nchan))
    offs = rng.uniform(-3, 3, size=(nsub, npol, nchan))
    wts = rng.choice([1.0, 1.0, 0.5, 0.0], size=(nsub, nchan))
    zero_off = float(rng.choice([0.0, 7.5, 0.5]))
    if case["fseed"] % 4 == 1:
        zero_off = 8 if nbits == 4 else 128      # the card written as an integer literal (legal FITS): ZERO_OFF = 8
        ctx.count("regime:zero_off_card_is_an_integer")
    tbin = float(rng.choice([6.4e-5, 5.12e-4]))
    if case["fseed"] % 5 == 3:
        # rows calibrated with unit scales and non-zero offsets (a writer that stores unscaled bytes plus a per-channel baseline)
        rows = rng.random(nsub) < 0.6
        rows[int(rng.integers(0, nsub))] = True
        scl[rows] = 1.0
    path = path or os.path.join(ctx.tmp, f"p{case['fseed']}.sf")
    meta = dict(nbits=nbits, pol_type=pol, freqs=freqs, tbin=tbin, scl=scl, offs=offs, wts=wts, zero_off=zero_off)
    # one file in three has a partly filled last sub-integration: NSTOT (the number of valid samples) < NSBLK * rows
    nstot = nsub * nsblk - (int(rng.integers(1, nsblk)) if case["fseed"] % 3 == 1 else 0)
    # the CHAN_BW card is informational: some writers store a plain positive width, or the sideband sign, whatever the order
    # of the DAT_FREQ table (which is what defines the channel order)
    cbw = None
    if case["fseed"] % 4 == 2:
        step = float(freqs[1] - freqs[0])
        cbw = -step if case["fseed"] % 8 == 2 else abs(step) * (1 if step < 0 else -1)
    # per-channel table cells wider than the file's own band (a sub-band cut out of a wider observation whose column formats were kept):
    # the reader documents that it takes the leading NCHAN (NPOL*NCHAN) entries of every such cell
    cell_pad = int(rng.choice([1, 3, nchan])) if (f in (2, 3, 6) or case["fseed"] % 7 == 0) else 0
    if cell_pad:
        ctx.count("regime:table_cells_wider_than_the_band")
        if npol > 1 and pol.endswith("CRCI"):
            ctx.count("regime:wide_cells_with_two_polarisations_in_the_product")
    psrfits.write_psrfits(path, raw, nstot=nstot, chan_bw=cbw, cell_pad=cell_pad, **meta)
    ref = psrfits.reference_values(raw, pol_type=pol, freqs=freqs, scl=scl, offs=offs, wts=wts, zero_off=zero_off)[:nstot]
    info = {"nsub": nsub, "nsblk": nsblk, "nchan": nchan, "npol": npol, "pol_type": pol, "nbits": nbits, "ascending": ascending, "zero_off": zero_off, "tbin": tbin, "nstot": nstot, "chan_bw_card_disagrees": cbw is not None,
            "unit_scale_rows": bool(case["fseed"] % 5 == 3), "cell_pad": cell_pad}
    return path, ref, freqs, info


def run_case(case, ctx):
    from sigpyproc.readers import FilReader, PFITSReader

    reused = False
    if case["fseed"] % 2 == 0:
        # the path was used before in this process by ANOTHER observation (other band order, zero offset, geometry): open and read it, then overwrite
        reuse = os.path.join(ctx.tmp, f"p{case['fseed']}.sf")
        try:
            _gen({"fseed": case["fseed"] + 7, "force": (case["force"] + 1) % 8 if case["force"] < 4 else 2 + case["force"] % 2}, ctx, path=reuse)
            with np.errstate(all="ignore"):
                old = PFITSReader(reuse)
                old.read_block(0, min(5, old.header.nsamples))
                _ = (old.header.fch1, old.header.tstart)
            del old
            reused = True
            ctx.count("regime:path_previously_held_another_file")
        except Exception:  # noqa: BLE001
            pass
    path, ref, freqs, info = _gen(case, ctx)
    if info["unit_scale_rows"]:
        ctx.count("regime:unit_scales_nonzero_offsets")
    one = dict(case, file=info)
    ctx.count("files_generated")
    ctx.count("band:ascending" if info["ascending"] else "band:descending")
    N, nch = ref.shape
    lay = f"{info['pol_type']}:{info['nbits']}bit"
    try:
        with np.errstate(all="ignore"):
            rd = PFITSReader(path)
            whole = rd.read_block(0, rd.header.nsamples)
    except Exception as exc:  # noqa: BLE001
        if reused:
            # the same bytes under a name this process has never seen: if they can be read there, the refusal came from the path's history
            import shutil

            fresh = os.path.join(ctx.tmp, f"fresh{case['fseed']}.sf")
            shutil.copyfile(path, fresh)
            try:
                with np.errstate(all="ignore"):
                    rd2 = PFITSReader(fresh)
                    rd2.read_block(0, rd2.header.nsamples)
                ctx.evaluated()
                ctx.violation(f"read-depends-on-what-the-path-held-before:{type(exc).__name__}", f"{lay}: the file reads in full under a fresh name but raises {fmt_exc(exc)} at a path that held another observation earlier in the process", one)
                return
            except Exception:  # noqa: BLE001
                pass
        ctx.skip(f"layout refused by the reader ({lay}): {type(exc).__name__}")
        ctx.evaluated()
        return
    ctx.count("files_in_domain")
    ctx.count(f"layout:{info['pol_type']}")
    band = "ascending" if info["ascending"] else "descending"
    # ---- header types and labels
    ctx.evaluated(); ctx.count("header_type_checks")
    h = rd.header
    for k in ("nchans", "nbits", "nsamples", "foff", "fch1", "tsamp", "tstart"):
        v = getattr(h, k)
        if not isinstance(v, numbers.Real) or type(v).__module__.startswith("astropy"):
            ctx.violation(f"header-not-plain-number:{k}", f"header.{k} is {type(v).__name__} ({v!r})", one)
            return
    if h.nsamples != N or h.nchans != nch:
        ctx.violation("header-shape", f"header says {h.nsamples}x{h.nchans}, file holds {N}x{nch}", one)
        return
    if abs(h.tsamp - info["tbin"]) > 1e-12:
        ctx.violation("header-tsamp", f"tsamp {h.tsamp} != TBIN {info['tbin']}", one)
    if nch > 1 and (abs(float(h.fch1) - float(freqs.max())) > 1e-6 or not float(h.foff) < 0):
        ctx.violation(f"labels-vs-data-order[{band}]", f"data are delivered in descending-frequency order but header has fch1={float(h.fch1)!r}, foff={float(h.foff)!r} (file DAT_FREQ {freqs[0]}..{freqs[-1]})", one)
        return
    # ---- whole file vs float64 reference
    ctx.evaluated(); ctx.count("whole_file_checks")
    W = np.asarray(whole.data, dtype=np.float64).T
    if W.shape != ref.shape:
        ctx.violation(f"whole-read-shape:{lay}", f"{W.shape} vs {ref.shape}", one)
        return
    tol = 1e-5 * np.maximum(1.0, np.abs(ref)) * 8
    if np.any(np.abs(W - ref) > tol):
        t, c = (int(v) for v in np.argwhere(np.abs(W - ref) > tol)[0])
        flipped = np.all(np.abs(W[:, ::-1] - ref) <= tol)
        ctx.violation(f"whole-read-values:{lay}[{band}]{':channel-order' if flipped else ''}", f"sample {t} chan {c}: read {W[t, c]!r}, ((raw-zero_off)*scl+offs)*wts = {ref[t, c]!r}", one)
        return
    # ---- every (start, nsamps)
    nsblk = info["nsblk"]
    step = 1 if N <= 80 else 7 if N <= 300 else 97
    for start in range(0, N, step):
        for ns in list(range(1, N - start + 1, step)) + [N - start]:
            ctx.evaluated(); ctx.count("position_requests")
            unal = start % nsblk != 0
            cross = (start // nsblk) != ((start + ns - 1) // nsblk)
            if unal:
                ctx.count("regime:unaligned_start")
            if cross:
                ctx.count("regime:crosses_subint")
            req = dict(one, request=[start, ns])
            try:
                b = rd.read_block(start, ns)
            except Exception as exc:  # noqa: BLE001
                ctx.violation(f"read_block-raised[{'unaligned' if unal else 'aligned'}{',crossing' if cross else ''}]:{type(exc).__name__}@{exc_site(exc)}",
                              f"read_block({start},{ns}) on N={N}, NSBLK={nsblk}: {fmt_exc(exc)}", req)
                return
            got = np.asarray(b.data)
            if got.shape != (nch, ns) or not np.array_equal(got, np.asarray(whole.data)[:, start : start + ns]):
                ctx.violation(f"read_block-position-dependent[{'unaligned' if unal else 'aligned'}{',crossing' if cross else ''}]",
                              f"read_block({start},{ns}) differs from columns [{start},{start+ns}) of the whole-file read (shape {got.shape})", req)
                return
            if unal or cross:
                ctx.nontrivial_case({"f": case["fseed"], "r": [start, ns]})
    if info["nstot"] < info["nsub"] * info["nsblk"]:
        ctx.count("regime:partial_last_subint")
    # ---- delivered blocks are the caller's: editing one in place must not change what later reads return
    ctx.evaluated(); ctx.count("mutation_checks")
    for (st, ns) in ((0, min(N, max(1, nsblk // 2))), (min(N - 1, nsblk + 1), min(N - min(N - 1, nsblk + 1), nsblk - 1) or 1), (0, N)):
        b = rd.read_block(st, ns)
        try:
            b.data[...] = -12345.0
        except ValueError:
            pass  # read-only view: fine
        again = np.asarray(rd.read_block(st, ns).data)
        if not np.array_equal(again, np.asarray(whole.data)[:, st : st + ns]):
            ctx.violation("read-after-caller-edit", f"read_block({st},{ns}) returns different values after an earlier block covering it was edited in place (shared cache buffer)", dict(one, request=[st, ns]))
            return
    mk = np.zeros(nch, dtype=bool); mk[:: 2] = True
    tmp_out = os.path.join(ctx.tmp, f"m{case['fseed']}.fil")
    try:
        rd.apply_channel_mask(mk, 0, tmp_out, gulp=max(1, nsblk // 2), quiet=True, description="v")   # masks the yielded blocks in place
        again = np.asarray(rd.read_block(0, N).data)
        if not np.array_equal(again, np.asarray(whole.data)):
            ctx.violation("read-after-inplace-transform", "whole-file read differs after apply_channel_mask streamed over the same reader (delivered blocks alias an internal cache)", one)
            return
    finally:
        if os.path.exists(tmp_out):
            os.unlink(tmp_out)
    # ---- sub-band requests: read_block(fch1=centre of channel k, nchans=m) returns rows k..k+m-1 of the whole read, labelled with that centre
    W = np.asarray(whole.data)
    hf = np.asarray(rd.header.chan_freqs, dtype=np.float64)
    for k in sorted({0, 1, nch // 2, nch - 1}):
        for m in sorted({1, 2, nch - k}):
            if k + m > nch:
                continue
            ctx.evaluated(); ctx.count("subband_requests")
            st, ns = min(N - 1, nsblk - 1), min(3, N - min(N - 1, nsblk - 1))
            try:
                sb = rd.read_block(st, ns, fch1=float(hf[k]), nchans=m)
            except Exception as exc:  # noqa: BLE001
                ctx.violation(f"subband-read-raised:{type(exc).__name__}@{exc_site(exc)}", f"read_block({st},{ns},fch1=centre of channel {k},nchans={m}): {fmt_exc(exc)}", dict(one, request=[st, ns, k, m]))
                return
            if np.asarray(sb.data).shape != (m, ns) or not np.array_equal(np.asarray(sb.data), W[k : k + m, st : st + ns]):
                ctx.violation("subband-read-values", f"read_block(fch1=centre of channel {k} = {hf[k]!r}, nchans={m}) does not return rows {k}..{k + m - 1} of the whole-file read (channel spacing {float(hf[1] - hf[0]) if nch > 1 else 0!r})", dict(one, request=[st, ns, k, m]))
                return
    # ---- read_plan exactly once
    Wflat = np.asarray(whole.data).T
    for gulp in (list(range(1, min(N, 40) + 2)) + [N, N + 3]) if N <= 400 else [97, 256, 257, nsblk - 1, nsblk + 1, N // 3, N, N + 3]:
        for skipback in sorted({0, 1, gulp // 2}):
            if skipback >= min(gulp, N):
                continue
            ctx.evaluated(); ctx.count("plan_checks")
            req = dict(one, plan=[gulp, skipback])
            try:
                pkw = {}
                if gulp % 5 == 2:     # the documented allocator option (a caller-side buffer factory), as accepted by every read_plan
                    pkw = {"allocator": (lambda nbytes: np.zeros(nbytes, dtype=np.uint8))}
                    ctx.count("plan:allocator_option")
                blocks = [(int(a), int(b), np.array(d, copy=True)) for a, b, d in rd.read_plan(gulp=gulp, skipback=skipback, quiet=True, description="v", **pkw)]
            except Exception as exc:  # noqa: BLE001
                ctx.violation(f"read_plan-raised:{type(exc).__name__}@{exc_site(exc)}", f"read_plan(gulp={gulp},skipback={skipback}): {fmt_exc(exc)}", req)
                return
            pieces = []
            bad = None
            for k, (nr, ii, d) in enumerate(blocks):
                if d.size % nch or nr != d.size // nch or nr > gulp or ii != k:
                    bad = f"block {k}: reported {nr} samples, array {d.size}/{nch}, index {ii}, gulp {gulp}"
                    break
                blk = d.reshape(-1, nch)
                pieces.append(blk if k == 0 else blk[skipback:])
            if bad is None:
                got = np.concatenate(pieces) if pieces else np.zeros((0, nch))
                # values are judged at float32 (the precision of the whole-file read); the dtype's consequences are judged by the reductions below
                if got.shape != Wflat.shape or not np.array_equal(got.astype(np.float32), Wflat.astype(np.float32)):
                    bad = f"stream of {got.shape[0]} samples reconstructed from {len(blocks)} blocks != whole-file read ({N} samples)"
            if bad:
                ctx.violation("read_plan-not-exactly-once", f"read_plan(gulp={gulp},skipback={skipback}): {bad}", req)
                return
            ctx.nontrivial_case({"f": case["fseed"], "p": [gulp, skipback]})
    # ---- reductions vs SIGPROC twin
    twin = os.path.join(ctx.tmp, f"t{case['fseed']}.fil")
    fd = float(freqs.max())
    bwv = -abs(float(freqs[1] - freqs[0])) if nch > 1 else -1.0
    sigfile.write_fil(twin, np.asarray(whole.data, dtype=np.float32).T, 32, fch1=fd, foff=bwv, tsamp=info["tbin"])
    fil = FilReader(twin)
    if info["chan_bw_card_disagrees"]:
        ctx.count("regime:chan_bw_card_disagrees_with_dat_freq")
    for gulp in sorted({max(1, N // 3), nsblk + 3, max(1, 2 * nsblk - 1), N}):
      for op in ("collapse", "bandpass", "dedisperse", "stats", "read_chan"):
          ctx.evaluated(); ctx.count("reduction_checks")
          req = dict(one, op=op)
          try:
              with np.errstate(all="ignore"):
                  if op == "collapse":
                      a, b = rd.collapse(gulp=gulp, quiet=True, description="v").data, fil.collapse(gulp=gulp, quiet=True, description="v").data
                  elif op == "bandpass":
                      a, b = rd.bandpass(gulp=gulp, quiet=True, description="v").data, fil.bandpass(gulp=gulp, quiet=True, description="v").data
                  elif op == "dedisperse":
                      # largest DM from a small menu whose delays fit in a quarter of the file (domain: maxdelay < nsamps)
                      dm = 0.0
                      for cand in (50.0, 10.0, 2.0, 0.5, 0.1):
                          dl = np.asarray(fil.header.get_dmdelays(cand)).reshape(-1)
                          if dl.min() >= 0 and dl.max() < max(1, N // 4):
                              dm = cand
                              break
                      a, b = rd.dedisperse(dm, gulp=gulp, quiet=True, description="v").data, fil.dedisperse(dm, gulp=gulp, quiet=True, description="v").data
                  else:
                      rd.compute_stats(gulp=gulp, quiet=True, description="v")
                      fil.compute_stats(gulp=gulp, quiet=True, description="v")
                      a = np.concatenate([rd.chan_stats.mean, rd.chan_stats.var, rd.chan_stats.maxima, rd.chan_stats.minima])
                      b = np.concatenate([fil.chan_stats.mean, fil.chan_stats.var, fil.chan_stats.maxima, fil.chan_stats.minima])
          except Exception as exc:  # noqa: BLE001
              ctx.violation(f"reduction-raised:{op}:{type(exc).__name__}@{exc_site(exc)}", f"{op} on PFITSReader: {fmt_exc(exc)}", req)
              continue
          a, b = np.asarray(a, dtype=np.float64), np.asarray(b, dtype=np.float64)
          if a.shape != b.shape or np.any(np.abs(a - b) > 1e-4 * np.maximum(1.0, np.abs(b))):
              ctx.violation(f"reduction-differs:{op}[{band}]", f"{op} over the PSRFITS reader differs from the SIGPROC file holding the same samples (shapes {a.shape} vs {b.shape})", req)
    if case["fseed"] % 4 == 0:
        ctx.sample({"file": info, "N": N, "requests_checked": "all (start,nsamps)" if step == 1 else "stride 7"})
    for p in (path, twin):
        if os.path.exists(p):
            os.unlink(p)
