"""C03 - bit packing and unpacking are exact inverses at every depth and bit order.

Finite per-byte domain, enumerated completely; the oracle is the bit-field
definition written with Python integers.  Arrays handed to the library are
red-zone framed (vlib.redzone) so an out-of-bounds store is seen too.
"""
from __future__ import annotations

import itertools
import os

import numpy as np

from vlib import sigfile
from vlib.core import exc_site, fmt_exc
from vlib.redzone import Frame

PROPERTY = "C03"
LEVEL = "exploration"
CLAIM = {
    "text": "Exhaustive runtime check of the finite per-byte domain: all 256 byte values at every position of arrays of length 0..9 (unpack), all 256 field tuples per byte at every position of arrays of 1..4 bytes (pack, unpack(pack)), for nbits in {1,2,4} x {big,little}, with and without a caller-supplied output buffer (red-zone framed, canaries audited), plus the complete rejection table and the per-depth default bit order through a FileWriter/FileReader round trip cross-checked with an independent packer. Thorough repeats everything under NUMBA_BOUNDSCHECK=1. Large arrays (4096 .. 2^20 bytes) are unpacked/packed with both bit orders alternating inside one process. The thorough tier also runs the repository's own test-suite with pack/unpack compared against the shift definition on every call. Rounds 7-8 added: packs of 2^20+1 bytes worth of samples, a file written in calls of shrinking size, and a block unpacked across the boundary of two files. Round 10 added: the rejection table and a round trip repeated in a child interpreter started with -O.",
    "design_ref": "DESIGN.md section 3 (C03), 2.1, 2.2",
    "note": "Trusted: Python integer shifts/masks as the definition, numpy as a container. pack() on an input whose length is not a multiple of 8/nbits is unspecified by the statement (counted, not judged). Arrays longer than 9 bytes are covered only by random spot checks.",
    "technique": "runtime monitoring: exhaustive enumeration against a Python-integer bit-field definition + red-zone canaries + bounds-checked re-JIT",
}
ASSUMPTIONS = ["bit-field definition: big = most significant field first, little = least significant field first",
               "kernels act on each byte independently (so per-byte exhaustiveness at positions 0..8 represents longer arrays); spot-checked on random 1 KiB-64 KiB arrays"]
RULE = ("for nbits in {1,2,4} x order in {big,little}: (a) every byte value 0..255 at every position p of arrays of length 0..9, other bytes random; "
        "(b) every field tuple of one byte (256 per depth) at every position of arrays of 1..4 bytes: pack == defining byte and unpack(pack(v)) == v; "
        "(c) each with and without caller buffer; (d) rejection table; (e) default order per depth via file round trip. "
        "Non-trivial = array length >= 1; distinct = distinct (nbits, order, length, position, value, buffer mode).")
BOUNDSCHECK_TIERS = ("thorough",)


SUITE_CONTRACTS = True   # thorough tier also runs the repository's own tests under vlib/suite_plugin.py
_SUITE_REQUIRED = ['suite:pack_checks', 'suite:unpack_checks']


def REQUIRED(tier):
    return _required(tier) + (_SUITE_REQUIRED + ["giant_calls"] if tier == "thorough" else [])


def _required(tier):
    return ["unpack_checks", "pack_checks", "roundtrip_checks", "caller_buffer_checks", "canary_audits", "rejections_checked",
            "default_order_file_roundtrips", "spot_checks_large", "spelling:alias", "large_order_switches_in_process", "strided_output_buffer_calls", "writer:calls_of_shrinking_size", "reader:unpack_across_a_file_boundary", "rejections_checked_under_python_O"]


def EXHAUSTIVE(tier):
    return True


def cases(tier, seed):
    for nbits, order in itertools.product((1, 2, 4), ("big", "little")):
        for length in range(0, 10):
            yield {"kind": "unpack", "nbits": nbits, "order": order, "length": length, "seed": seed}
        for length in range(1, 5):
            yield {"kind": "pack", "nbits": nbits, "order": order, "length": length, "seed": seed}
        yield {"kind": "large", "nbits": nbits, "order": order, "seed": seed}
    yield {"kind": "reject"}
    yield {"kind": "reject_optimised"}
    for nbits in (1, 2, 4):
        yield {"kind": "default", "nbits": nbits, "seed": seed}
    if tier == "thorough":
        yield {"kind": "giant", "seed": seed}


def _giant(case, ctx):
    """One call on more than 2**31 unpacked samples (a 256 MiB block of 1-bit data read at once): sample offsets beyond a 32-bit index."""
    from sigpyproc.io import bits

    rng = np.random.default_rng([case["seed"], 31])
    nbytes = (1 << 28) + 4096
    raw = rng.integers(0, 256, size=nbytes, dtype=np.uint8)
    for order in ("little", "big"):
        ctx.evaluated(); ctx.count("giant_calls")
        out = bits.unpack(raw, 1, bitorder=order)
        one = dict(case, order=order)
        if out.size != nbytes * 8:
            ctx.violation("giant:unpack-size", f"{out.size} samples for {nbytes} bytes", one)
            return
        for lo in (0, (1 << 28) - 2048, nbytes - 4096, int(rng.integers(0, nbytes - 4096))):   # windows before, across and after sample 2**31
            want = sigfile.unpack_bits(raw[lo : lo + 4096], 1, order)
            if not np.array_equal(out[lo * 8 : (lo + 4096) * 8], want):
                ctx.violation(f"giant:unpack-values:{order}", f"samples of bytes [{lo},{lo + 4096}) of a {nbytes}-byte block differ from the definition (sample index {lo * 8} .. )", one)
                return
        back = bits.pack(out, 1, bitorder=order)
        if back.size != nbytes or not np.array_equal(back, raw):
            bad = int(np.flatnonzero(back != raw)[0]) if back.size == nbytes else -1
            ctx.violation(f"giant:pack-values:{order}", f"pack(unpack(block)) differs from the block first at byte {bad} of {nbytes}", one)
            return
        del out, back
        ctx.nontrivial_case(one)


def cases_boundscheck(tier, seed):
    return cases(tier, seed)


def fields_of(byte: int, nbits: int, order: str) -> list[int]:
    per = 8 // nbits
    mask = (1 << nbits) - 1
    vals = [(byte >> (i * nbits)) & mask for i in range(per)]  # least significant first
    return vals if order == "little" else vals[::-1]


def byte_of(fields, nbits: int, order: str) -> int:
    per = 8 // nbits
    seq = list(fields) if order == "little" else list(fields)[::-1]
    b = 0
    for i, v in enumerate(seq):
        b |= (int(v) & ((1 << nbits) - 1)) << (i * nbits)
    return b


ALIASES = {"big": ("big", "b", "be", "big-endian"), "little": ("little", "l", "le", "little-endian")}


def _spelling(order, k):
    """Every accepted spelling of a bit order (the API goes by the first letter) must mean the same thing."""
    a = ALIASES[order]
    return a[k % len(a)]


class _Keep:
    """Results returned by earlier buffer-less calls must stay intact when later calls are made (no shared output arrays)."""

    def __init__(self):
        self.held = []

    def check(self, ctx, case, what):
        for arr, want in self.held:
            if arr.tolist() != want:
                ctx.violation(f"earlier-result-overwritten:{what}", "an array returned by an earlier call changed after a later call of the same size (shared output buffer)", case)
                return False
        return True

    def hold(self, arr, want):
        self.held.append((arr, list(want)))
        if len(self.held) > 3:
            self.held.pop(0)


def _audit(ctx, frame, case, what):
    ctx.count("canary_audits")
    bad = frame.audit()
    if bad:
        ctx.violation(f"oob-store:{what}", f"guard zone modified: {bad}", case)
        return False
    return True



_OPT_CHILD = r"""
import json, sys
import numpy as np
from sigpyproc.io import bits
assert not __debug__
out = {"checked": 0, "bad": []}
def probe(name, fn):
    out["checked"] += 1
    try:
        fn()
    except ValueError:
        return
    except Exception as exc:
        out["bad"].append([name, "raised " + type(exc).__name__]); return
    out["bad"].append([name, "accepted"])
good = (np.arange(8) % 2).astype(np.uint8)
for f in (bits.unpack, bits.pack):
    for dt in (np.int8, np.uint16, np.float32):
        probe(f"dtype:{f.__name__}", lambda: f(np.zeros(8, dtype=dt), 1, bitorder="big"))
    for nb in (0, 3, 8):
        probe(f"nbits:{f.__name__}", lambda: f(good.copy(), nb, bitorder="big"))
    for bo in ("", "x", None):
        probe(f"bitorder:{f.__name__}", lambda: f(good.copy(), 1, bitorder=bo))
for nbits in (1, 2, 4):
    per = 8 // nbits
    for order in ("big", "little"):
        for n in (1, 3, 8):
            for delta in (-1, 1, per):
                big = np.full(4096, 0xEE, dtype=np.uint8)          # the buffer is a slice of our own memory: an overrun stays inside it
                buf = big[1024:1024 + max(0, n * per + delta)]
                src = (np.arange(n) * 37 % 256).astype(np.uint8)
                probe(f"bufsize:unpack:{nbits}:{order}", lambda: bits.unpack(src, nbits, buf, bitorder=order))
                if np.any(big != 0xEE):
                    out["bad"].append([f"bufsize:unpack:{nbits}:{order}", "memory-written"])
                big2 = np.full(4096, 0xEE, dtype=np.uint8)
                pbuf = big2[1024:1024 + max(0, n + (1 if delta > 0 else -1))]
                usrc = (np.arange(n * per) % (1 << nbits)).astype(np.uint8)
                probe(f"bufsize:pack:{nbits}:{order}", lambda: bits.pack(usrc, nbits, pbuf, bitorder=order))
                if np.any(big2 != 0xEE):
                    out["bad"].append([f"bufsize:pack:{nbits}:{order}", "memory-written"])
# and the round trip still holds in this interpreter mode
for nbits in (1, 2, 4):
    for order in ("big", "little"):
        a = np.arange(256, dtype=np.uint8)
        u = bits.unpack(a, nbits, bitorder=order)
        per = 8 // nbits
        sh = [(per - 1 - i) * nbits for i in range(per)] if order == "big" else [i * nbits for i in range(per)]
        want = np.array([[(int(b) >> s) & ((1 << nbits) - 1) for s in sh] for b in a], dtype=np.uint8).ravel()
        out["checked"] += 1
        if not np.array_equal(u, want) or not np.array_equal(bits.pack(u, nbits, bitorder=order), a):
            out["bad"].append([f"roundtrip:{nbits}:{order}", "values"])
print("RESULT " + json.dumps(out))
"""

def run_case(case, ctx):
    if case["kind"] == "giant":
        if getattr(ctx, "mode", "normal") == "normal":
            _giant(case, ctx)
        return
    _run_case(case, ctx)


def _run_case(case, ctx):
    from sigpyproc.io import bits

    kind = case["kind"]
    if kind == "unpack":
        nbits, order, L = case["nbits"], case["order"], case["length"]
        per = 8 // nbits
        rng = np.random.default_rng([case["seed"], nbits, L, order == "big"])
        if L == 0:
            ctx.evaluated()
            out = bits.unpack(np.zeros(0, dtype=np.uint8), nbits, bitorder=order)
            ctx.count("unpack_checks")
            if out.size != 0 or out.dtype != np.uint8:
                ctx.violation("unpack-empty", f"unpack of empty array returned size {out.size} dtype {out.dtype}", case)
            return
        base = rng.integers(0, 256, size=L).astype(np.uint8)
        keep = _Keep()
        for p in range(L):
            for val in range(256):
                ctx.evaluated()
                arr_py = base.tolist()
                arr_py[p] = val
                want = [f for b in arr_py for f in fields_of(b, nbits, order)]
                fr = Frame(rng)
                arr = fr.like(np.array(arr_py, dtype=np.uint8), "in")
                spell = _spelling(order, val)
                out = bits.unpack(arr, nbits, bitorder=spell)
                ctx.count("unpack_checks")
                ctx.count("spelling:" + ("canonical" if spell in ("big", "little") else "alias"))
                one = dict(case, pos=p, value=val, spelling=spell)
                if not keep.check(ctx, one, "unpack"):
                    return
                keep.hold(out, want)
                if out.dtype != np.uint8 or out.tolist() != want:
                    ctx.violation(f"unpack-wrong:{nbits}bit:{order}", f"unpack byte {val:#04x} at pos {p}: got {out.tolist()[p*per:(p+1)*per]} want {want[p*per:(p+1)*per]}", one)
                    return
                if max(want) >= (1 << nbits):
                    ctx.violation("oracle", "oracle bug", one)
                # caller buffer, framed
                buf = fr.alloc(L * per, np.uint8, "out", fill=0xEE)
                out2 = bits.unpack(arr, nbits, buf, bitorder=_spelling(order, val + 1))
                ctx.count("caller_buffer_checks")
                if out2.tolist() != want or buf.tolist() != want:
                    ctx.violation(f"unpack-buffer-differs:{nbits}bit:{order}", f"unpack into caller buffer differs at byte {val:#04x} pos {p}", one)
                    return
                if arr.tolist() != arr_py:
                    ctx.violation("unpack-modified-input", "input array modified", one)
                    return
                if not _audit(ctx, fr, one, "unpack"):
                    return
                if val == 0x9C and p == L - 1:
                    ctx.nontrivial_case(one)
                ctx.nontrivial_case({"k": "u", "n": nbits, "o": order, "L": L, "p": p, "v": val})
        ctx.sample({"kind": "unpack", "nbits": nbits, "order": order, "bytes": arr_py, "unpacked": want})
        return
    if kind == "pack":
        nbits, order, L = case["nbits"], case["order"], case["length"]
        per = 8 // nbits
        rng = np.random.default_rng([case["seed"], nbits, L, 7, order == "big"])
        base = rng.integers(0, 256, size=L).astype(np.uint8).tolist()
        keep = _Keep()
        for p in range(L):
            for ti, tup in enumerate(itertools.product(range(1 << nbits), repeat=per)):
                ctx.evaluated()
                fields = [f for b in base for f in fields_of(b, nbits, order)]
                fields[p * per : (p + 1) * per] = list(tup)
                want = list(base)
                want[p] = byte_of(tup, nbits, order)
                fr = Frame(rng)
                arr = fr.like(np.array(fields, dtype=np.uint8), "in")
                spell = _spelling(order, ti)
                out = bits.pack(arr, nbits, bitorder=spell)
                ctx.count("pack_checks")
                one = dict(case, pos=p, fields=list(tup), spelling=spell)
                if not keep.check(ctx, one, "pack"):
                    return
                keep.hold(out, want)
                if out.dtype != np.uint8 or out.tolist() != want:
                    ctx.violation(f"pack-wrong:{nbits}bit:{order}", f"pack fields {tup} at pos {p}: got {out.tolist()} want {want}", one)
                    return
                buf = fr.alloc(L, np.uint8, "out", fill=0xEE)
                out2 = bits.pack(arr, nbits, buf, bitorder=_spelling(order, ti + 2))
                ctx.count("caller_buffer_checks")
                if out2.tolist() != want or buf.tolist() != want:
                    ctx.violation(f"pack-buffer-differs:{nbits}bit:{order}", "pack into caller buffer differs", one)
                    return
                back = bits.unpack(out, nbits, bitorder=order)
                ctx.count("roundtrip_checks")
                if back.tolist() != fields:
                    ctx.violation(f"roundtrip:{nbits}bit:{order}", f"unpack(pack(v)) != v for fields {tup} at pos {p}", one)
                    return
                if not _audit(ctx, fr, one, "pack"):
                    return
                ctx.nontrivial_case({"k": "p", "n": nbits, "o": order, "L": L, "p": p, "t": list(tup)})
        ctx.sample({"kind": "pack", "nbits": nbits, "order": order, "fields": fields, "packed": want})
        return
    if kind == "large":
        nbits, order = case["nbits"], case["order"]
        per = 8 // nbits
        rng = np.random.default_rng([case["seed"], nbits, 99, order == "big"])
        other = "little" if order == "big" else "big"
        # both bit orders alternate inside one process: a result must not depend on which order was used before at this depth/size
        plan = [(n, order) for n in (1024, 4097, 65536, 17, 8 * 16 + 8, 8 * 17)] + [(n, o) for n in (4096, 20000, 1 << 20) for o in (other, order, other)] + [((1 << 20) + 1, order)]
        for n, order in plan:
            ctx.evaluated()
            raw = rng.integers(0, 256, size=n).astype(np.uint8)
            want = sigfile.unpack_bits(raw, nbits, order)
            fr = Frame(rng)
            out = bits.unpack(fr.like(raw), nbits, bitorder=_spelling(order, n))
            back = bits.pack(fr.like(want), nbits, bitorder=_spelling(order, n + 1))
            ctx.count("spot_checks_large")
            if order != case["order"]:
                ctx.count("large_order_switches_in_process")
            if not np.array_equal(out, want) or not np.array_equal(back, raw):
                ctx.violation(f"large-array:{nbits}bit:{order}", f"random {n}-byte array: unpack/pack differ from definition", dict(case, n=n))
            _audit(ctx, fr, case, "large")
            ctx.nontrivial_case(dict(case, n=n))
            if n <= 4097:
                # a caller-supplied output buffer that is a strided view: refusing it is fine, returning without having filled it is not
                for fn, src, wantv, m in ((bits.unpack, raw, want, want.size), (bits.pack, want, raw, raw.size)):
                    big = np.full(2 * m, 0xEE, dtype=np.uint8)
                    view = big[::2]
                    ctx.count("strided_output_buffer_calls")
                    try:
                        fn(src.copy(), nbits, view, bitorder=order)
                    except Exception:  # noqa: BLE001
                        ctx.count("strided_output_buffer_refused")
                        continue
                    if not np.array_equal(view, wantv) or np.any(big[1::2] != 0xEE):
                        ctx.violation(f"strided-output-buffer-not-filled:{fn.__name__}:{nbits}bit", f"{fn.__name__} returned normally but the strided caller buffer of {m} elements does not hold the result", dict(case, n=n))
            # unspecified: input length not a multiple of 8/nbits
            if per > 1:
                try:
                    bits.pack(want[: n * per - 1].copy(), nbits, bitorder=order)
                    ctx.count("unspecified:pack_partial_byte_accepted")
                except Exception:  # noqa: BLE001
                    ctx.count("unspecified:pack_partial_byte_rejected")
        return
    if kind == "reject":
        good = np.arange(8, dtype=np.uint8) % 2
        table = []
        for dt in (np.int8, np.uint16, np.float32, np.int64, np.bool_):
            table.append(("dtype", lambda f, dt=dt: f(np.zeros(8, dtype=dt), 1, bitorder="big")))
        for nb in (0, 3, 8, 16, -1, 5):
            table.append(("nbits", lambda f, nb=nb: f(good.copy(), nb, bitorder="big")))
        for bo in ("", "x", None, "middle"):
            table.append(("bitorder", lambda f, bo=bo: f(good.copy(), 1, bitorder=bo)))
        # the same bad arguments with a zero-length array (an empty read at the end of a stream): validation does not depend on the length
        empty = np.zeros(0, dtype=np.uint8)
        for nb in (0, 3, 8):
            table.append(("nbits[empty-input]", lambda f, nb=nb: f(empty.copy(), nb, bitorder="big")))
        for bo in ("", "middle"):
            table.append(("bitorder[empty-input]", lambda f, bo=bo: f(empty.copy(), 1, bitorder=bo)))
        for dt in (np.float32, np.int16):
            table.append(("dtype[empty-input]", lambda f, dt=dt: f(np.zeros(0, dtype=dt), 1, bitorder="big")))
        for name, call in table:
            for fn in (bits.unpack, bits.pack):
                ctx.evaluated()
                ctx.count("rejections_checked")
                try:
                    call(fn)
                except ValueError:
                    continue
                except Exception as exc:  # noqa: BLE001
                    ctx.violation(f"reject-{name}:{type(exc).__name__}", f"{fn.__name__} with bad {name} raised {fmt_exc(exc)} instead of ValueError", case)
                    continue
                ctx.violation(f"reject-{name}:accepted", f"{fn.__name__} accepted a bad {name}", case)
        # wrong buffer sizes: must raise and leave the buffer untouched
        for nbits in (1, 2, 4):
            per = 8 // nbits
            for order in ("big", "little"):
                for n in (1, 3, 8):
                    for delta in (-1, 1, per):
                        ctx.evaluated()
                        ctx.count("rejections_checked")
                        fr = Frame()
                        src = fr.like((np.arange(n) * 37 % 256).astype(np.uint8))
                        buf = fr.alloc(max(0, n * per + delta), np.uint8, "out", fill=0xEE)
                        try:
                            bits.unpack(src, nbits, buf, bitorder=order)
                            ctx.violation("reject-bufsize:accepted", f"unpack accepted output buffer of size {buf.size} for {n} bytes at {nbits} bits", case)
                        except ValueError:
                            if np.any(buf != 0xEE):
                                ctx.violation("reject-bufsize:buffer-touched", "rejected call modified the buffer", case)
                        except Exception as exc:  # noqa: BLE001
                            ctx.violation(f"reject-bufsize:{type(exc).__name__}", fmt_exc(exc), case)
                        usrc = fr.like((np.arange(n * per) % (1 << nbits)).astype(np.uint8))
                        pbuf = fr.alloc(max(0, n + (1 if delta > 0 else -1)), np.uint8, "pout", fill=0xEE)
                        try:
                            bits.pack(usrc, nbits, pbuf, bitorder=order)
                            ctx.violation("reject-bufsize:accepted", f"pack accepted output buffer of size {pbuf.size} for {n*per} values at {nbits} bits", case)
                        except ValueError:
                            if np.any(pbuf != 0xEE):
                                ctx.violation("reject-bufsize:buffer-touched", "rejected call modified the buffer", case)
                        except Exception as exc:  # noqa: BLE001
                            ctx.violation(f"reject-bufsize:{type(exc).__name__}", fmt_exc(exc), case)
                        _audit(ctx, fr, case, "reject")
        ctx.nontrivial_case({"k": "reject-table"})
        ctx.nontrivial_case({"k": "reject-bufsizes"})
        return
    if kind == "reject_optimised":
        # the same rejection table in an interpreter started with -O (assert statements and `if __debug__` blocks compiled away):
        # argument validation that a caller relies on may not live in code that an optimised interpreter drops
        import json as _json, subprocess, sys as _sys

        r = subprocess.run([_sys.executable, "-O", "-c", _OPT_CHILD], capture_output=True, text=True, timeout=600)
        line = [l for l in r.stdout.splitlines() if l.startswith("RESULT ")]
        if r.returncode != 0 or not line:
            if r.returncode < 0:
                ctx.evaluated()
                ctx.violation(f"optimised-interpreter:crash:signal{-r.returncode}", f"the rejection table under python -O killed the interpreter: {r.stderr[-300:]}", case)
            else:
                ctx.skip(f"optimised-interpreter child failed to run: rc={r.returncode} {r.stderr[-200:]}")
            return
        res = _json.loads(line[0][7:])
        for _ in range(res["checked"]):
            ctx.evaluated()
        ctx.count("rejections_checked_under_python_O", res["checked"])
        for name, what in res["bad"][:20]:
            ctx.violation(f"optimised-interpreter:{name.split(':')[0]}:{what.split()[0]}", f"under python -O: {name}: {what}", case)
        ctx.nontrivial_case({"k": "reject-table-python-O"})
        return
    if kind == "default":
        from sigpyproc.io.bits import BitsInfo
        from sigpyproc.io.fileio import FileWriter
        from sigpyproc.readers import FilReader

        nbits = case["nbits"]
        want_order = "little" if nbits == 1 else "big"
        ctx.evaluated()
        if BitsInfo(nbits).bitorder != want_order:
            ctx.violation(f"default-order:{nbits}bit", f"BitsInfo({nbits}).bitorder = {BitsInfo(nbits).bitorder!r}, expected {want_order!r}", case)
        rng = np.random.default_rng([case["seed"], nbits, 5])
        nch = 8
        X = sigfile.random_samples(rng, 33, nch, nbits)
        # library writer -> independent parser
        p1 = os.path.join(ctx.tmp, f"w{nbits}.fil")
        hdr = sigfile.encode_header(sigfile.std_items(nchans=nch, nbits=nbits))
        with FileWriter(p1, mode="w", nbits=nbits) as fw:
            fw.write(hdr)
            fw.cwrite(X.ravel().astype(np.uint8))
        d, hl, raw = sigfile.parse_file(p1)
        ctx.count("default_order_file_roundtrips")
        if raw != sigfile.encode_data(X, nbits):
            ctx.violation(f"default-order-writer:{nbits}bit", "FileWriter.cwrite packs with a different field order than the per-depth default", case)
        # the same samples handed over in other in-memory types (a boolean threshold mask for a 1-bit file, floats, wide integers)
        for dt in ([np.bool_] if nbits == 1 else []) + [np.float32, np.int64, np.uint16]:
            p3 = os.path.join(ctx.tmp, f"w{nbits}_{np.dtype(dt).name}.fil")
            with FileWriter(p3, mode="w", nbits=nbits) as fw:
                fw.write(hdr)
                fw.cwrite(X.ravel().astype(dt))
            ctx.count("default_order_file_roundtrips")
            if sigfile.parse_file(p3)[2] != sigfile.encode_data(X, nbits):
                ctx.violation(f"default-order-writer:{nbits}bit:{np.dtype(dt).name}", f"FileWriter.cwrite of {np.dtype(dt).name} samples writes other bytes than for the same samples as uint8", case)
        # independent writer -> library reader
        p2 = os.path.join(ctx.tmp, f"r{nbits}.fil")
        sigfile.write_fil(p2, X, nbits)
        blk = FilReader(p2).read_block(0, 33)
        ctx.count("default_order_file_roundtrips")
        if not np.array_equal(blk.data.T, X.astype(np.float32)):
            ctx.violation(f"default-order-reader:{nbits}bit", "FilReader unpacks with a different field order than the per-depth default", case)
        # a file written in several calls of shrinking size (full gulps, then a shorter last one) is the packing of the samples written
        p4 = os.path.join(ctx.tmp, f"w{nbits}_parts.fil")
        with FileWriter(p4, mode="w", nbits=nbits) as fw:
            fw.write(hdr)
            for a, b in ((0, 12), (12, 24), (24, 31), (31, 33)):
                fw.cwrite(X[a:b].ravel().astype(np.uint8))
        ctx.count("default_order_file_roundtrips"); ctx.count("writer:calls_of_shrinking_size")
        if sigfile.parse_file(p4)[2] != sigfile.encode_data(X, nbits):
            ctx.violation(f"writer-multi-call:{nbits}bit", f"a {nbits}-bit file written in calls of 12, 12, 7 and 2 samples holds {len(sigfile.parse_file(p4)[2])} data bytes / other bytes than the packing of the 33 samples", case)
        # the same samples spread over two files and read back in one counted read across the boundary
        pa = sigfile.write_split(ctx.tmp, X, nbits, [13, 20], stem=f"two{nbits}")
        blk2 = FilReader(pa).read_block(5, 25)
        ctx.count("default_order_file_roundtrips"); ctx.count("reader:unpack_across_a_file_boundary")
        if not np.array_equal(blk2.data.T, X[5:30].astype(np.float32)):
            ctx.violation(f"reader-across-files:{nbits}bit", "a block read across the boundary of two files differs from the unpacking of the stream's bytes", case)
        ctx.nontrivial_case(case)
        return
    raise ValueError(kind)
