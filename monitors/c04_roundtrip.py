"""C04 - what is written is what is read back, for every format and sample depth."""
from __future__ import annotations

import os

import numpy as np

from vlib import sigfile
from vlib.core import exc_site, fmt_exc

PROPERTY = "C04"
LEVEL = "exploration"
CLAIM = {
    "text": "Exploration by runtime monitoring: every writer path (prep_outfile+cwrite at 1/2/4/8/16/32 bits in one or several calls, FilterbankBlock.to_file, TimeSeries.to_tim/to_dat, FourierSeries.to_spec/to_fft) is driven with every in-memory dtype in {uint8,uint16,int64,float32,float64} and random shapes/values; the product is parsed by an independent SIGPROC parser (declared depth vs actual byte count) and re-read with the matching library reader, comparing values bit-for-bit, inferred sample counts and tsamp/tstart/DM. A FileWriter spy checks on-disk growth per call against size*nbits/8. The header DM of block products must survive, and products whose basename contains a dot (`_DM12.50`) must be written under that name next to a sibling product. Rounds 7-8 added: 8/16/32-bit .tim products read back with from_tim, series epochs within seconds of 0h UTC, and a third, shorter product under a reused name. Round 10 added: signed samples (and eighths from floating-point arrays) for 32-bit products.",
    "design_ref": "DESIGN.md section 3 (C04)",
    "note": "Trusted: vlib/sigfile.py parser, numpy dtype conversions of representable integers. When the in-memory dtype differs from the file type either an identical read-back or an exception raised before any data byte is written is accepted.",
    "technique": "runtime monitoring: write/read-back differential with independent file parser + FileWriter growth spy",
}
ASSUMPTIONS = ["values are integers representable at the file depth (float32 integers < 2^24 at 32 bits)",
               "a .spec file's sample count is judged on the number of complex values returned by from_spec"]
RULE = ("every (path, depth, in-memory dtype) combination once per seed with random shape (nsamps 1..64, legal nchans incl. 1-sample, 1-channel) "
        "plus seeded random combinations incl. multi-call writes and non-contiguous views; non-trivial = value array has >= 2 distinct values; "
        "distinct = distinct (path, depth, dtype, shape, ncalls, view kind, data seed)")
DTYPES = ("uint8", "uint16", "int64", "float32", "float64")
DEPTHS = (1, 2, 4, 8, 16, 32)
PATHS = ("cwrite", "block_to_file", "to_tim", "to_dat", "to_spec", "to_fft")


def REQUIRED(tier):
    return ["view:byteswapped", "readback_blocks_held", "readback_overlapping_plan", "prep_outfile:no_arguments", "path:cwrite", "path:block_to_file", "path:to_tim", "path:to_dat", "path:to_spec", "path:to_fft",
            "readback_compared", "declared_width_checked", "spy:cwrite_calls", "dtype_mismatch_cases", "multi_call_writes", "path:reuse_name", "reuse_name:equal_length_products", "dotted_basename_pairs", "path:tim_depths", "reuse_name:shorter_product_last"]


def cases(tier, seed):
    rng = np.random.default_rng([seed, 404])
    k = 0
    for depth in DEPTHS:
        for dt in DTYPES:
            for view in ("contig", "strided"):
                k += 1
                yield {"path": "cwrite", "depth": depth, "dtype": dt, "nsamps": int(rng.integers(1, 65)),
                       "nchans": sigfile.legal_nchans(depth, int(rng.integers(1, 17))), "ncalls": int(rng.integers(1, 4)), "view": view, "dseed": int(seed) * 7919 + k}
    for path in PATHS[1:]:
        for dt in DTYPES:
            k += 1
            yield {"path": path, "dtype": dt, "nsamps": int(rng.integers(1, 200)), "nchans": int(rng.integers(1, 17)), "dseed": int(seed) * 7919 + k}
    for depth in (8, 16, 32):
        for ncalls in (1, 3):
            for _ in range(2 if tier == "quick" else 20):
                k += 1
                yield {"path": "tim_depths", "depth": depth, "nsamps": int(rng.integers(2, 1500)), "ncalls": ncalls, "dseed": int(seed) * 7919 + k}
    for depth in DEPTHS:   # one long gulp written in a single call (piece-wise conversion paths)
        for dt in ("int64", "float64", "uint8" if depth <= 8 else "float32"):
            k += 1
            yield {"path": "cwrite", "depth": depth, "dtype": dt, "nsamps": 52001, "nchans": 8, "ncalls": 1, "view": "contig", "dseed": int(seed) * 7919 + k}
    for path in ("cwrite", "to_tim", "to_spec", "block_to_file"):
        for _ in range(3 if tier == "quick" else 40):
            k += 1
            yield {"path": "reuse_name", "via": path, "nsamps": int(rng.integers(2, 200)), "nchans": int(rng.choice([8, 16, 32])), "dseed": int(seed) * 7919 + k}
    nrand = 3000 if tier == "quick" else 40000
    for _ in range(nrand):
        k += 1
        path = str(rng.choice(PATHS, p=[0.5, 0.1, 0.1, 0.1, 0.1, 0.1]))
        depth = int(rng.choice(DEPTHS))
        c = {"path": path, "depth": depth, "dtype": str(rng.choice(DTYPES)), "nsamps": int(rng.choice([1, 2, int(rng.integers(1, 300))])),
             "nchans": sigfile.legal_nchans(depth, int(rng.choice([1, int(rng.integers(1, 40))]))) if path == "cwrite" else int(rng.integers(1, 20)),
             "ncalls": int(rng.integers(1, 6)), "view": str(rng.choice(["contig", "strided", "transposed", "byteswapped"])), "dseed": int(seed) * 7919 + k}
        yield c


_spy = {"installed": False, "log": []}


def setup_worker(ctx):
    from sigpyproc.io.fileio import FileWriter

    if _spy["installed"]:
        return
    o = FileWriter.cwrite

    def cwrite(self, arr):
        fd = self.file_obj.fileno()
        before = os.fstat(fd).st_size
        r = o(self, arr)
        after = os.fstat(fd).st_size
        _spy["log"].append({"size": int(np.asarray(arr).size), "dtype": str(np.asarray(arr).dtype), "nbits": self.bitsinfo.nbits, "grow": after - before})
        return r

    FileWriter.cwrite = cwrite
    _spy["installed"] = True


def _mk_header(nchans, nbits, nsamps, path, data_type="filterbank", dm=0.0, tstart=59000.123456789):
    from sigpyproc.header import Header

    # every third product belongs to an observation whose source name / raw-file path is longer than 80 characters
    _mk_header.n = getattr(_mk_header, "n", 0) + 1
    long_names = _mk_header.n % 3 == 0
    return Header(filename=path, data_type=data_type, nchans=nchans, foff=-0.5, fch1=1400.25, nbits=nbits, tsamp=6.4e-5 * 3,
                  tstart=tstart, nsamples=nsamps, dm=dm, source="J0437-4715" + ("_drift-scan-field" * 6 if long_names else ""), telescope="Parkes", backend="BPSR",
                  rawdatafile="/data/archive/2017/09/04/beam01/" + "uwl_" * 20 + "raw.sf" if long_names else "raw.sf")


def _values(rng, n, depth_bits, dtype=None):
    hi = {1: 2, 2: 4, 4: 16, 8: 256, 16: 65536, 32: 1 << 20}[depth_bits]
    if dtype is not None:  # representable in the in-memory dtype as well
        hi = min(hi, {"uint8": 256, "uint16": 65536}.get(dtype, hi))
    v = rng.integers(0, hi, size=n)
    if n >= 2:
        v[0], v[1] = 0, hi - 1
    if depth_bits == 32 and dtype in ("int64", "float32", "float64"):
        # 32-bit files hold single-precision floats: negative values (and, from floating-point arrays, eighths) are representable samples
        v = v * rng.choice([-1, 1], size=n)
        if dtype != "int64":
            v = v + rng.integers(-7, 8, size=n) / 8.0
    return v


def _timing_ok(ctx, case, hdr_in, hdr_out, what, dm=None):
    ok = True
    if abs(hdr_out.tsamp - hdr_in.tsamp) > 1e-15 * max(1, abs(hdr_in.tsamp)) * 8:
        ctx.violation(f"timing-tsamp:{what}", f"tsamp {hdr_in.tsamp!r} read back as {hdr_out.tsamp!r}", case); ok = False
    if abs(hdr_out.tstart - hdr_in.tstart) > 1e-9:
        ctx.violation(f"timing-tstart:{what}", f"tstart {hdr_in.tstart!r} read back as {hdr_out.tstart!r}", case); ok = False
    if dm is not None and abs(hdr_out.dm - dm) > 1e-9 * max(1.0, abs(dm)):
        ctx.violation(f"timing-dm:{what}", f"dm {dm!r} read back as {hdr_out.dm!r}", case); ok = False
    return ok


def run_case(case, ctx):
    getattr(__import__(__name__, fromlist=["x"]), f"_run_{case['path']}")(case, ctx)


def _run_cwrite(case, ctx):
    from sigpyproc.readers import FilReader

    depth, dt, ns, nch, ncalls = case["depth"], case["dtype"], case["nsamps"], case["nchans"], min(case.get("ncalls", 1), case["nsamps"])
    rng = np.random.default_rng([case["dseed"], 1])
    vals = _values(rng, ns * nch, depth, dt)
    X = vals.reshape(ns, nch)
    ctx.evaluated()
    ctx.count("path:cwrite")
    file_dt = {8: "uint8", 16: "uint16", 32: "float32"}.get(depth, "uint8")
    mismatch = dt != file_dt
    if mismatch:
        ctx.count("dtype_mismatch_cases")
    if case.get("view") in ("byteswapped",):
        ctx.count(f"view:{case['view']}")
    out = os.path.join(ctx.tmp, f"c04_{ctx.evaluations}.fil")
    hdr = _mk_header(nch, 8, ns, out)
    cuts = sorted(rng.choice(np.arange(1, ns), size=ncalls - 1, replace=False).tolist()) if ncalls > 1 else []
    if ncalls > 1:
        ctx.count("multi_call_writes")
    parts = [X[a:b] for a, b in zip([0] + cuts, cuts + [ns])]
    _spy["log"].clear()
    err, hdrlen_before = None, None
    if depth == 8 and case["dseed"] % 2:
        # the header already says 8 bits: the plain spelling (no nbits, no updates), after whatever this process wrote before
        ctx.count("prep_outfile:no_arguments")
        fw = hdr.prep_outfile(out)
    else:
        fw = hdr.prep_outfile(out, nbits=depth)
    try:
        hdrlen_before = os.path.getsize(out)
        for part in parts:
            flat = part.ravel().astype(dt)
            view = case.get("view", "contig")
            if view == "strided":
                big = np.zeros(flat.size * 2, dtype=dt)
                big[::2] = flat
                flat = big[::2]
            elif view == "transposed":
                flat = np.asfortranarray(part.astype(dt)).T.T.ravel()  # forces a copy path through ravel of F-ordered
            elif view == "byteswapped":
                # the same values in the other byte order (what astropy.io.fits or np.frombuffer(..., '>f4') hand over)
                flat = flat.astype(flat.dtype.newbyteorder(">")) if flat.dtype.itemsize > 1 else flat
            fw.cwrite(flat)
    except Exception as exc:  # noqa: BLE001
        err = exc
    finally:
        fw.close()
    ctx.count("spy:cwrite_calls", len(_spy["log"]))
    size_after = os.path.getsize(out)
    label = f"cwrite:{depth}bit<-{dt}"
    if err is not None:
        if size_after != hdrlen_before:
            ctx.violation(f"refused-after-writing:{label}", f"cwrite raised {fmt_exc(err)} after {size_after - hdrlen_before} data bytes were written", case)
        elif not mismatch:
            ctx.violation(f"matching-dtype-refused:{label}@{exc_site(err)}", f"cwrite of the file's own dtype raised {fmt_exc(err)}", case)
        else:
            ctx.count("mismatch_refused_cleanly")
            ctx.nontrivial_case(case)
        os.unlink(out)
        return
    # independent parse: declared depth vs bytes on disk
    d, hl, raw = sigfile.parse_file(out)
    ctx.count("declared_width_checked")
    if d["nbits"] != depth or d["nchans"] != nch:
        ctx.violation(f"header-declares:{label}", f"header declares nbits={d['nbits']} nchans={d['nchans']}, asked {depth}/{nch}", case)
    if len(raw) * 8 != ns * nch * depth:
        ctx.violation(f"written-width-differs:{label}", f"data section is {len(raw)} bytes for {ns}x{nch} samples at declared {depth} bits (expected {ns*nch*depth//8}): written at a different sample width", case,
                      spy=_spy["log"][:4])
        os.unlink(out)
        return
    for rec in _spy["log"]:
        if rec["grow"] * 8 != rec["size"] * depth:
            ctx.violation(f"growth-per-call:{label}", f"cwrite of {rec['size']} values grew the file by {rec['grow']} bytes at {depth} bits", case)
    fil = FilReader(out)
    ctx.count("readback_compared")
    if fil.header.nsamples != ns:
        ctx.violation(f"inferred-nsamples:{label}", f"reader infers {fil.header.nsamples} samples, {ns} written", case)
    else:
        blk = fil.read_block(0, ns)
        if not np.array_equal(blk.data.T.astype(np.float64), X.astype(np.float64)):
            ctx.violation(f"readback-values:{label}", "read_block values differ from the array written", case)
        got = np.concatenate([np.array(b[2], dtype=np.float64) for b in fil.read_plan(gulp=7, quiet=True, description="v")]).reshape(-1, nch)
        if not np.array_equal(got, X.astype(np.float64)):
            ctx.violation(f"readback-values-plan:{label}", "read_plan values differ from the array written", case)
        # the product read back the way consumers do: equal-sized blocks that are all kept, and an overlapping plan
        q = max(1, ns // 4)
        kept = [(i, fil.read_block(i, min(q, ns - i))) for i in range(0, ns, q)]
        ctx.count("readback_blocks_held")
        for i, b in kept:
            if not np.array_equal(b.data.T.astype(np.float64), X[i : i + q].astype(np.float64)):
                ctx.violation(f"readback-values-blocks-held:{label}", f"block read at sample {i} no longer holds the samples written once later blocks of the same size had been read", case)
                break
        if ns >= 6:
            sb, g = 2, 5
            pieces, k = [], 0
            try:
                for nr, ii, dat in fil.read_plan(gulp=g, skipback=sb, quiet=True, description="v"):
                    arr = np.array(dat, dtype=np.float64).reshape(-1, nch)
                    pieces.append(arr if k == 0 else arr[sb:])
                    k += 1
            except Exception as exc:  # noqa: BLE001
                ctx.violation(f"readback-plan-overlap-raised:{label}:{type(exc).__name__}", f"read_plan(gulp={g}, skipback={sb}) over the product raised {fmt_exc(exc)} after {k} block(s)", case)
                os.unlink(out)
                return
            gotp = np.concatenate(pieces)
            ctx.count("readback_overlapping_plan")
            if gotp.shape != X.shape or not np.array_equal(gotp, X.astype(np.float64)):
                ctx.violation(f"readback-values-plan-overlap:{label}", f"read_plan(gulp={g}, skipback={sb}) does not deliver the samples written ({gotp.shape[0]} of {ns} samples, first mismatch counted from the second block)", case)
    _timing_ok(ctx, case, hdr, fil.header, label)
    if len(np.unique(vals)) >= 2:
        ctx.nontrivial_case(case)
    if ctx.evaluations % 50 == 1:
        ctx.sample({"case": case, "spy": _spy["log"][:3], "file_bytes": size_after})
    os.unlink(out)


def _run_reuse_name(case, ctx):
    """Two different products of identical byte length written one after the other to the SAME path: the second read-back
    must describe the second product (stale caches keyed on path/size would return the first)."""
    from sigpyproc.block import FilterbankBlock
    from sigpyproc.fourierseries import FourierSeries
    from sigpyproc.header import Header
    from sigpyproc.readers import FilReader
    from sigpyproc.timeseries import TimeSeries

    via, ns, nch = case["via"], case["nsamps"], case["nchans"]
    rng = np.random.default_rng([case["dseed"], 8])
    path = os.path.join(ctx.tmp, "reused_name" + {"cwrite": ".fil", "to_tim": ".tim", "to_spec": ".spec", "block_to_file": ".fil"}[via])
    ctx.evaluated(); ctx.count("path:reuse_name")
    prods = []
    for rnd in range(3):
        if rnd == 2:      # and a third, shorter product under the same name: nothing of the longer one may remain behind it
            ns = max(1, case["nsamps"] // 2)
            ctx.count("reuse_name:shorter_product_last")
        tsamp, tstart, dm = float(rng.choice([6.4e-5, 1e-3, 2.5e-4])) * (rnd + 1), 59000.0 + rnd * 1.5 + float(rng.random()), float(rng.integers(1, 900)) / 4 + rnd
        def hdr(nchans, nbits, n, data_type="filterbank"):
            return Header(filename=path, data_type=data_type, nchans=nchans, foff=-0.5, fch1=1400.0, nbits=nbits, tsamp=tsamp, tstart=tstart, nsamples=n, dm=dm, source="J0000-0000")
        if via == "cwrite":
            # same byte length, different depth/shape: round 0 8-bit x nch, round 1 16-bit x nch/2
            nb, nc = (8, nch) if rnd == 0 else (16, nch // 2)
            X = rng.integers(0, 200, size=(ns, nc)).astype(np.uint8 if nb == 8 else np.uint16)
            fw = hdr(nc, 8, ns).prep_outfile(path, updates={"nchans": nc}, nbits=nb)
            fw.cwrite(X.ravel()); fw.close()
            fil = FilReader(path)
            got = fil.read_block(0, fil.header.nsamples).data.T if fil.header.nsamples else np.zeros((0, nc))
            meta = (fil.header.nbits, fil.header.nchans, fil.header.nsamples, fil.header.tsamp, fil.header.tstart, fil.header.dm)
            want_meta = (nb, nc, ns, tsamp, tstart, dm)
            same = got.shape == X.shape and np.array_equal(got, X.astype(np.float32))
        elif via == "block_to_file":
            X = rng.integers(0, 200, size=(nch, ns)).astype(np.float32)
            FilterbankBlock(X, hdr(nch, 8, ns)).to_file(path)
            fil = FilReader(path)
            got = fil.read_block(0, fil.header.nsamples).data
            meta = (fil.header.nbits, fil.header.nchans, fil.header.nsamples, fil.header.tsamp, fil.header.tstart, fil.header.dm)
            want_meta = (32, nch, ns, tsamp, tstart, dm)
            same = got.shape == X.shape and np.array_equal(got, X)
        elif via == "to_tim":
            x = rng.integers(0, 5000, size=ns * nch).astype(np.float32)
            TimeSeries(x, hdr(1, 32, x.size, "time series")).to_tim(path)
            back = TimeSeries.from_tim(path)
            meta = (back.header.nbits, back.header.nchans, back.header.nsamples, back.header.tsamp, back.header.tstart, back.header.dm)
            want_meta = (32, 1, x.size, tsamp, tstart, dm)
            same = back.data.shape == x.shape and np.array_equal(back.data, x)
        else:
            z = (rng.integers(0, 5000, size=ns * nch) + 1j * rng.integers(0, 5000, size=ns * nch)).astype(np.complex64)
            FourierSeries(z, hdr(1, 32, 2 * z.size, "time series")).to_spec(path)
            back = FourierSeries.from_spec(path)
            meta = (back.header.nbits, back.header.nchans, 2 * back.data.size, back.header.tsamp, back.header.tstart, back.header.dm)
            want_meta = (32, 1, 2 * z.size, tsamp, tstart, dm)
            same = back.data.shape == z.shape and np.array_equal(back.data, z)
        prods.append(os.path.getsize(path))
        ctx.count("readback_compared")
        bad = [n for n, g, w in zip(("nbits", "nchans", "nsamples", "tsamp", "tstart", "dm"), meta, want_meta) if (abs(g - w) > 1e-9 * max(1.0, abs(w)))]
        if bad or not same:
            ctx.violation(f"reused-name-stale:{via}:{'metadata:' + ','.join(bad) if bad else 'values'}",
                          f"product #{rnd + 1} written to an already used path read back with {dict(zip(('nbits','nchans','nsamples','tsamp','tstart','dm'), meta))}, wrote {dict(zip(('nbits','nchans','nsamples','tsamp','tstart','dm'), want_meta))}; values equal: {same}", case)
            return
    if prods[0] == prods[1]:
        ctx.count("reuse_name:equal_length_products")
    ctx.nontrivial_case(case)
    os.unlink(path)


def _run_block_to_file(case, ctx):
    from sigpyproc.block import FilterbankBlock
    from sigpyproc.readers import FilReader

    ns, nch, dt = case["nsamps"], case["nchans"], case["dtype"]
    rng = np.random.default_rng([case["dseed"], 2])
    X = _values(rng, ns * nch, 32 if dt.startswith("float") or dt == "int64" else (8 if dt == "uint8" else 16)).reshape(nch, ns)
    ctx.evaluated(); ctx.count("path:block_to_file")
    out = os.path.join(ctx.tmp, f"c04b_{ctx.evaluations}.fil")
    hdm = float(rng.integers(1, 4000)) / 8
    hdr = _mk_header(nch, 8, ns, out, dm=hdm)
    blk = FilterbankBlock(X.astype(dt), hdr)
    _spy["log"].clear()
    name = blk.to_file(out)
    ctx.count("spy:cwrite_calls", len(_spy["log"]))
    d, hl, raw = sigfile.parse_file(name)
    ctx.count("declared_width_checked")
    if d["nbits"] != 32 or len(raw) != ns * nch * 4:
        ctx.violation("written-width-differs:block_to_file", f"declared nbits={d['nbits']}, {len(raw)} data bytes for {ns}x{nch}", case)
        return
    fil = FilReader(name)
    ctx.count("readback_compared")
    if fil.header.nsamples != ns or fil.header.nchans != nch:
        ctx.violation("inferred-nsamples:block_to_file", f"reader infers {fil.header.nsamples}x{fil.header.nchans}, wrote {ns}x{nch}", case)
        return
    back = fil.read_block(0, ns)
    if not np.array_equal(back.data, X.astype(np.float32)):
        ctx.violation("readback-values:block_to_file", "block read back differs", case)
    _timing_ok(ctx, case, hdr, fil.header, "block_to_file", dm=hdm)
    ctx.nontrivial_case(case)
    os.unlink(name)


_EPOCHS = (59000.123456789, 59000.0 + 3.2 / 86400.0, 59000.0, 58999.0 + 5.0e-05, 59000.999995)   # incl. starts within seconds of 0h UTC


def _ts_header(ns, path, dm, nbits=32):
    _ts_header.n = getattr(_ts_header, "n", 0) + 1
    return _mk_header(1, nbits, ns, path, data_type="time series", dm=dm, tstart=_EPOCHS[_ts_header.n % len(_EPOCHS)])


def _run_tim_depths(case, ctx):
    """A SIGPROC time series written at 8/16/32 bits through prep_outfile + cwrite and read back with its matching reader."""
    from sigpyproc.timeseries import TimeSeries

    ns, depth = case["nsamps"], case["depth"]
    rng = np.random.default_rng([case["dseed"], 9])
    x = _values(rng, ns, depth).astype({8: "uint8", 16: "uint16", 32: "float32"}[depth])
    dm = float(rng.integers(0, 2000)) / 8
    ctx.evaluated(); ctx.count("path:tim_depths")
    out = os.path.join(ctx.tmp, f"c04td_{ctx.evaluations}.tim")
    hdr = _ts_header(ns, out, dm, nbits=depth)
    w = hdr.prep_outfile(out, nbits=depth)
    for part in np.array_split(x, min(case.get("ncalls", 1), ns)):
        w.cwrite(part)
    w.close()
    d, hl, raw = sigfile.parse_file(out)
    ctx.count("declared_width_checked")
    if d["nbits"] != depth or len(raw) != ns * depth // 8:
        ctx.violation("written-width-differs:tim_depths", f"declared nbits={d['nbits']}, {len(raw)} bytes for {ns} samples of {depth} bits", case)
        return
    try:
        back = TimeSeries.from_tim(out)
    except Exception as exc:  # noqa: BLE001
        ctx.violation(f"from_tim-raised:{type(exc).__name__}@{exc_site(exc)}", f"from_tim of a {depth}-bit .tim product raised {fmt_exc(exc)}", case)
        return
    ctx.count("readback_compared")
    if back.nsamples != ns or not np.array_equal(np.asarray(back.data, dtype=np.float64), x.astype(np.float64)):
        ctx.violation("readback-values:tim_depths", f"from_tim of a {depth}-bit .tim product returned {back.nsamples} samples / different values ({ns} written)", case)
    _timing_ok(ctx, case, hdr, back.header, "tim_depths", dm=dm)
    ctx.nontrivial_case(case)
    os.unlink(out)


def _run_to_tim(case, ctx):
    from sigpyproc.timeseries import TimeSeries

    ns, dt = case["nsamps"], case["dtype"]
    rng = np.random.default_rng([case["dseed"], 3])
    x = _values(rng, ns, 8 if dt == "uint8" else 16).astype(dt)
    dm = float(rng.integers(0, 2000)) / 8
    ctx.evaluated(); ctx.count("path:to_tim")
    out = os.path.join(ctx.tmp, f"c04t_{ctx.evaluations}.tim")
    ts = TimeSeries(x, _ts_header(ns, out, dm))
    name = ts.to_tim(out)
    d, hl, raw = sigfile.parse_file(name)
    ctx.count("declared_width_checked")
    if d["nbits"] != 32 or len(raw) != 4 * ns:
        ctx.violation("written-width-differs:to_tim", f"declared nbits={d['nbits']}, {len(raw)} bytes for {ns} samples", case)
        return
    back = TimeSeries.from_tim(name)
    ctx.count("readback_compared")
    if back.nsamples != ns or not np.array_equal(back.data, x.astype(np.float32)):
        ctx.violation("readback-values:to_tim", f"from_tim returned {back.nsamples} samples / different values ({ns} written)", case)
    _timing_ok(ctx, case, ts.header, back.header, "to_tim", dm=dm)
    ctx.nontrivial_case(case)
    os.unlink(name)


def _run_to_dat(case, ctx):
    from sigpyproc.timeseries import TimeSeries

    ns, dt = case["nsamps"], case["dtype"]
    rng = np.random.default_rng([case["dseed"], 4])
    x = _values(rng, ns, 8 if dt == "uint8" else 16).astype(dt)
    dm = float(rng.integers(0, 2000)) / 8
    ctx.evaluated(); ctx.count("path:to_dat")
    base = os.path.join(ctx.tmp, f"c04d_{ctx.evaluations}" + ("_DM12.50" if case["dseed"] % 2 else ""))
    ts = TimeSeries(x, _ts_header(ns, base + ".tim", dm))
    name = ts.to_dat(base)
    if case["dseed"] % 2:   # a sibling product whose basename differs only after the last dot (PRESTO trial naming) must not clobber it
        ctx.count("dotted_basename_pairs")
        sib = base[:-2] + "75"
        TimeSeries((x[: max(1, ns // 2)] + 1).astype(x.dtype), _ts_header(max(1, ns // 2), sib + ".tim", dm + 0.25)).to_dat(sib)
    if name != base + ".dat" or not os.path.exists(base + ".inf"):
        ctx.violation("dat-file-name", f"to_dat({os.path.basename(base)!r}) wrote {os.path.basename(name)!r} / .inf present: {os.path.exists(base + '.inf')}", case)
        return
    try:
        back = TimeSeries.from_dat(name)
    except Exception as exc:  # noqa: BLE001
        ctx.violation(f"from_dat-raised:{type(exc).__name__}@{exc_site(exc)}", f"from_dat(to_dat()) raised {fmt_exc(exc)}", case)
        return
    ctx.count("readback_compared"); ctx.count("declared_width_checked")
    if os.path.getsize(name) != 4 * ns:
        ctx.violation("dat-not-raw-float32", f".dat file is {os.path.getsize(name)} bytes for {ns} float32 samples (PRESTO .dat is headerless)", case)
    if back.nsamples != ns or not np.array_equal(back.data, x.astype(np.float32)):
        ctx.violation("readback-values:to_dat", f"from_dat returned {back.nsamples} samples (wrote {ns}) or different values", case)
    _timing_ok(ctx, case, ts.header, back.header, "to_dat", dm=dm)
    ctx.nontrivial_case(case)
    for ext in (".dat", ".inf"):
        if os.path.exists(base + ext):
            os.unlink(base + ext)


def _fs(ctx, case, seedk):
    from sigpyproc.fourierseries import FourierSeries

    ns, dt = case["nsamps"], case["dtype"]
    rng = np.random.default_rng([case["dseed"], seedk])
    re = _values(rng, ns, 16).astype(np.float32)
    im = _values(rng, ns, 16).astype(np.float32)
    z = (re + 1j * im)
    z = z.astype(np.complex128 if dt == "float64" else np.complex64)
    dm = float(rng.integers(0, 2000)) / 8
    return z, dm, FourierSeries


def _run_to_spec(case, ctx):
    z, dm, FourierSeries = _fs(ctx, case, 5)
    ns = case["nsamps"]
    ctx.evaluated(); ctx.count("path:to_spec")
    out = os.path.join(ctx.tmp, f"c04s_{ctx.evaluations}.spec")
    fs = FourierSeries(z, _ts_header(2 * ns, out, dm))
    name = fs.to_spec(out)
    d, hl, raw = sigfile.parse_file(name)
    ctx.count("declared_width_checked")
    if d["nbits"] != 32 or len(raw) != 8 * ns:
        ctx.violation("written-width-differs:to_spec", f"declared nbits={d['nbits']}, {len(raw)} bytes for {ns} complex64", case)
        return
    back = FourierSeries.from_spec(name)
    ctx.count("readback_compared")
    if back.data.size != ns or not np.array_equal(back.data, z.astype(np.complex64)):
        ctx.violation("readback-values:to_spec", f"from_spec returned {back.data.size} values (wrote {ns}) or different values", case)
    _timing_ok(ctx, case, fs.header, back.header, "to_spec", dm=dm)
    ctx.nontrivial_case(case)
    os.unlink(name)


def _run_to_fft(case, ctx):
    z, dm, FourierSeries = _fs(ctx, case, 6)
    ns = case["nsamps"]
    ctx.evaluated(); ctx.count("path:to_fft")
    base = os.path.join(ctx.tmp, f"c04f_{ctx.evaluations}" + ("_DM12.50" if case["dseed"] % 2 else ""))
    fs = FourierSeries(z, _ts_header(2 * ns, base + ".tim", dm))
    name = fs.to_fft(base)
    if case["dseed"] % 2:
        ctx.count("dotted_basename_pairs")
        sib = base[:-2] + "75"
        FourierSeries(z[: max(1, ns // 2)] + 1, _ts_header(2 * max(1, ns // 2), sib + ".tim", dm + 0.25)).to_fft(sib)
    if name != base + ".fft" or not os.path.exists(base + ".inf"):
        ctx.violation("fft-file-name", f"to_fft({os.path.basename(base)!r}) wrote {os.path.basename(name)!r} / .inf present: {os.path.exists(base + '.inf')}", case)
        return
    ctx.count("declared_width_checked")
    if os.path.getsize(name) != 8 * ns:
        ctx.violation("fft-not-raw-complex64", f".fft file is {os.path.getsize(name)} bytes for {ns} complex64", case)
    try:
        back = FourierSeries.from_fft(name)
    except Exception as exc:  # noqa: BLE001
        ctx.violation(f"from_fft-raised:{type(exc).__name__}@{exc_site(exc)}", f"from_fft(to_fft()) raised {fmt_exc(exc)}", case)
        return
    ctx.count("readback_compared")
    if back.data.size != ns or not np.array_equal(back.data, z.astype(np.complex64)):
        ctx.violation("readback-values:to_fft", f"from_fft returned {back.data.size} values (wrote {ns}) or different values", case)
    _timing_ok(ctx, case, fs.header, back.header, "to_fft", dm=dm)
    ctx.nontrivial_case(case)
    for ext in (".fft", ".inf"):
        if os.path.exists(base + ext):
            os.unlink(base + ext)
