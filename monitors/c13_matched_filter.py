"""C13 - matched-filter S/N is the normalised template correlation and its argmax."""
from __future__ import annotations

import numpy as np

from vlib.core import exc_site, fmt_exc

PROPERTY = "C13"
LEVEL = "exploration"
CLAIM = {
    "text": "Exploration by runtime monitoring: for seeded random data lengths (FFT-good and not, 24..512), template kinds {boxcar, gaussian, lorentzian}, bank sizes and spacings, every response value MatchedFilter.convs[k,t] is recomputed as an explicit float64 inner product of the library's own standardised data (periodic over their own length) with the zero-mean unit-norm template whose reference bin is placed at t; snr/peak_bin/best_temp must be the maximum and its location; results must be invariant under x -> a*x+b (a>0); a noiseless boxcar of every bank width at start in {0,1,n/3,n-w} must be recovered at its start bin with its width. Added: baseline offsets up to 1e4 with centring on and off, offset invariance for every centring option under a measured float32 error model (gate 10x the unchanged tree's worst case), 3001..8192-bin series against a float64 FFT oracle, and bank completeness (one template per width) also right after a construction the library had to refuse. Rounds 7-8 added: responses, z-scores, S/N and peak bin re-read after MatchedFilter.plot(). Round 9 added: series of 2^17+ bins for all three template kinds.",
    "design_ref": "DESIGN.md section 3 (C13)",
    "note": "Trusted: numpy float64 dot products. Data and templates are periodic over the data length n (templates normalised over n); z-scores are taken from the library (their correctness is C15's subject).",
    "technique": "runtime monitoring: explicit inner-product oracle for every (template, bin) + argmax consistency + metamorphic invariance checks",
}
ASSUMPTIONS = ["circular correlation over the data length n; templates zero-padded to n and normalised over n", "gate 1e-4*max(1,||z||) on responses (float32 FFT noise ~1e-6)"]
RULE = ("random (n, kind, nbins_max, spacing_factor, data seed); pulses injected at random positions incl. both edges; boxcar recovery for every bank width x 4 start bins; "
        "non-trivial = bank has >= 2 templates; distinct = distinct case record")
KINDS = ("boxcar", "gaussian", "lorentzian")


def REQUIRED(tier):
    return ["responses_compared", "argmax_checks", "invariance_checks", "boxcar_recoveries", "kind:boxcar", "kind:gaussian", "kind:lorentzian", "len:not_fft_good", "pulse:wraps_around_end", "kernel_direct_unsorted_bank", "long_series", "regime:uncentred_data_with_baseline", "invariance:offset_with_centring_off", "construction_after_refused_one", "regime:baseline_1e5_times_noise", "input_buffer_reused_after_construction", "bank_with_template_as_wide_as_data", "fullwidth_template_present", "held_filter_checks", "plot_then_read_checks", "regime:series_over_2^17_bins", "argmax:wide_pulse_in_dense_bank"]


def cases(tier, seed):
    n = 120 if tier == "quick" else 3000
    for i in range(n):
        yield {"kind": "conv", "seed": int(seed) * 100003 + i}
    for i in range(max(8, n // 6)):
        yield {"kind": "boxcar", "seed": int(seed) * 100003 + i}
    for i in range(max(24, n // 10)):
        yield {"kind": "long", "seed": int(seed) * 100003 + i}
    for i, tk in enumerate(("gaussian", "lorentzian", "boxcar")):
        yield {"kind": "long", "seed": int(seed) * 100003 + 4000 + 4 * i, "n": (1 << 17) + 101 * (i + 1), "tkind": tk}
    for i in range(12 if tier == "quick" else 120):
        yield {"kind": "fullwidth", "seed": int(seed) * 100003 + i}


def _good(n):
    """Length over which data and templates are periodic: the data length itself (templates are normalised over it)."""
    return int(n)


def _fft_friendly(n):
    from scipy.fft import next_fast_len

    return int(next_fast_len(int(n), real=True)) == int(n)


def oracle_convs(z, bank, L):
    """z: standardised data (n,), bank: list of (template array, ref_bin). Returns (ntemp, n) float64."""
    n = z.size
    zext = z[np.arange(L) % n].astype(np.float64)
    out = np.empty((len(bank), n))
    idx = np.arange(L)
    for k, (T, ref) in enumerate(bank):
        pad = np.zeros(L)
        pad[: T.size] = T
        h = np.roll(pad, -ref)            # reference bin at index 0
        h = h - h.mean()
        nrm = np.sqrt(np.sum(h ** 2))
        if nrm:
            h = h / nrm
        # response at t: sum_j zext[j] * h[(j - t) mod L]
        M = h[(idx[None, :] - np.arange(n)[:, None]) % L]
        out[k] = M @ zext
    return out


def oracle_convs_fft64(z, bank):
    """Same inner products through numpy's float64 FFT (circular cross-correlation over the data length): used for long series."""
    n = z.size
    Z = np.fft.rfft(z.astype(np.float64))
    out = np.empty((len(bank), n))
    for k, (T, ref) in enumerate(bank):
        pad = np.zeros(n)
        pad[: T.size] = T
        h = np.roll(pad, -ref)
        h = h - h.mean()
        nrm = np.sqrt(np.sum(h ** 2))
        if nrm:
            h = h / nrm
        out[k] = np.fft.irfft(Z * np.conj(np.fft.rfft(h)), n)
    return out


def _tol(z):
    """float32 FFT error model, measured on the unchanged tree for n = 24..20000 with and without a baseline: the response error stays below
    1.5e-6*||z - mean z|| + 1.2e-6*|mean z| (the DC level only leaks through rounding because every template is zero-mean); gate at 10x."""
    z = np.asarray(z, dtype=np.float64)
    return 1.5e-5 * max(1.0, float(np.linalg.norm(z - z.mean()))) + 1.5e-5 * abs(float(z.mean()))


def run_case(case, ctx):
    from sigpyproc.core.filters import MatchedFilter

    rng = np.random.default_rng([case["seed"], 13])
    if case["kind"] == "boxcar":
        return _boxcar(case, ctx, rng)
    if case["kind"] == "long":
        return _long(case, ctx, rng)
    if case["kind"] == "fullwidth":
        return _fullwidth(case, ctx, rng)
    n = int(rng.choice([200, 211, 256, 509, 127, 96, int(rng.integers(24, 513))]))
    kind = str(rng.choice(KINDS))
    nbmax = int(rng.choice([4, 8, 16, 32]))
    while nbmax * (1 if kind == "boxcar" else 4) > n // 2 and nbmax > 2:
        nbmax //= 2
    spacing = float(rng.choice([1.5, 2.0, 1.2, 3.0]))
    x = rng.normal(size=n).astype(np.float32)
    offset = float(np.random.default_rng([case["seed"], 132]).choice([0.0, 0.0, 100.0, 1e3, 1e4]))   # a baseline level under the noise
    pos = int(rng.choice([0, 1, n // 3, n - 3, int(rng.integers(0, n))]))
    w = int(rng.integers(1, max(2, nbmax)))
    wrap = bool(rng.random() < 0.35)
    if wrap:   # a pulse that straddles the end of the (periodic) profile
        pos = n - int(rng.integers(1, max(2, w + 1)))
        x[(pos + np.arange(w)) % n] += float(rng.uniform(6, 20))
        ctx.count("pulse:wraps_around_end")
    else:
        x[pos : pos + w] += float(rng.uniform(3, 20))
    if offset:
        x = (x + np.float32(offset)).astype(np.float32)
        ctx.count("data:baseline_offset")
    one = dict(case, params={"n": n, "kind": kind, "nbins_max": nbmax, "spacing": spacing, "pos": pos, "w": w, "wrap": wrap, "offset": offset})
    ctx.evaluated()
    ctx.count(f"kind:{kind}")
    L = _good(n)
    if not _fft_friendly(n):
        ctx.count("len:not_fft_good")
    orng = np.random.default_rng([case["seed"], 131])
    loc_m = str(orng.choice(["median", "median", "mean", "norm"]))
    scale_m = str(orng.choice(["iqr", "iqr", "mad", "std", "norm"]))
    xin = x
    if orng.random() < 0.25:
        big = np.zeros(2 * n, dtype=np.float32)
        big[::2] = x
        xin = big[::2]
        ctx.count("variant:strided_input")
    one["params"].update(loc=loc_m, scale=scale_m)
    ctx.count(f"options:{loc_m}/{scale_m}")
    refused = False
    if orng.random() < 0.4:   # a construction with the same settings that the library must refuse (data shorter than the widest template) comes first
        try:
            MatchedFilter(x[: max(2, nbmax // 2)].copy(), loc_method=loc_m, scale_method=scale_m, temp_kind=kind, nbins_max=nbmax, spacing_factor=spacing)
        except ValueError:
            refused = True
        except Exception:  # noqa: BLE001
            pass
    try:
        mf = MatchedFilter(xin, loc_method=loc_m, scale_method=scale_m, temp_kind=kind, nbins_max=nbmax, spacing_factor=spacing)
    except Exception as exc:  # noqa: BLE001
        ctx.violation(f"raised:{kind}:{type(exc).__name__}@{exc_site(exc)}", fmt_exc(exc), one)
        return
    # the bank is fixed by (kind, nbins_max, spacing) alone: one template per width, whatever was constructed (or refused) before
    if kind == "boxcar":
        wexp = [1]
        while True:
            nw = int(max(wexp[-1] + 1, spacing * wexp[-1]))
            if nw > nbmax:
                break
            wexp.append(nw)
        nexp = len(wexp)
    else:
        nexp = int(np.ceil(np.log(nbmax) / np.log(spacing))) + 1
    ctx.count("bank_size_checks")
    if refused:
        ctx.count("construction_after_refused_one")
    wid = [float(t.width) for t in mf.temp_bank]
    if len(mf.temp_bank) != nexp or np.asarray(mf.convs).shape[0] != nexp or len(mf.temp_widths) != nexp or not np.allclose(wid, np.asarray(mf.temp_widths, dtype=np.float64), rtol=1e-6) \
            or (kind == "boxcar" and [int(v) for v in wid] != wexp):
        ctx.violation(f"bank-incomplete:{kind}{':after-refused-construction' if refused else ''}",
                      f"bank of {len(mf.temp_bank)} templates (widths {wid[:8]}), {np.asarray(mf.convs).shape[0]} response rows; (kind, nbins_max={nbmax}, spacing={spacing}) defines {nexp}", one)
        return
    z = np.asarray(mf.zscores.data, dtype=np.float64)
    bank = [(np.asarray(t.data, dtype=np.float64), int(t.ref_bin)) for t in mf.temp_bank]
    convs = np.asarray(mf.convs, dtype=np.float64)
    want = oracle_convs(z, bank, L)
    ctx.count("responses_compared", int(want.size))
    tol = _tol(z)
    if convs.shape != want.shape:
        ctx.violation(f"convs-shape:{kind}", f"{convs.shape} vs {want.shape}", one)
        return
    err = np.abs(convs - want)
    ratio = err.max() / max(1.0, float(np.linalg.norm(z)))
    ctx.count("err/|z|:" + ("<=1e-7" if ratio <= 1e-7 else "<=1e-6" if ratio <= 1e-6 else "<=1e-5" if ratio <= 1e-5 else "<=1e-4" if ratio <= 1e-4 else ">1e-4"))
    if loc_m == "norm" and offset:
        ctx.count("regime:uncentred_data_with_baseline")
    if err.max() > tol:
        k, t = (int(v) for v in np.unravel_index(np.argmax(err), err.shape))
        # diagnose common mis-constructions
        diag = ""
        alt_rev = oracle_convs(z, [(T[::-1].copy(), T.size - 1 - r) for T, r in bank], L)
        if np.abs(convs - alt_rev).max() <= tol and kind == "boxcar":
            diag = ":time-reversed"
        ctx.violation(f"response-values:{kind}{diag}", f"convs[{k},{t}] = {convs[k, t]!r}, inner product gives {want[k, t]!r} (max err {err.max():.3e} > {tol:.1e}; n={n}, L={L}, width={mf.temp_bank[k].width})", one)
        return
    ctx.count("argmax_checks")
    k0, t0 = (int(v) for v in np.unravel_index(np.argmax(mf.convs), mf.convs.shape))
    if float(mf.snr) != float(mf.convs.max()) or mf.peak_bin != t0 or mf.best_temp is not mf.temp_bank[k0]:
        # tolerate exact ties elsewhere
        if not (float(mf.snr) == float(mf.convs.max()) and mf.convs[[i for i, t in enumerate(mf.temp_bank) if t is mf.best_temp][0], mf.peak_bin] == mf.convs.max()):
            ctx.violation(f"argmax:{kind}", f"snr={mf.snr!r} peak_bin={mf.peak_bin} width={mf.best_temp.width}; max response {mf.convs.max()!r} at template {k0} bin {t0}", one)
            return
    on = mf.on_pulse
    if not (0 <= on[0] <= on[1] <= n):
        ctx.violation(f"on-pulse-range:{kind}", f"on_pulse={on} outside [0,{n}]", one)
    # invariance under positive affine maps
    if not _invariance(ctx, mf, x, offset, dict(loc_method=loc_m, scale_method=scale_m, temp_kind=kind, nbins_max=nbmax, spacing_factor=spacing), one):
        return
    # the kernel itself on a bank in arbitrary order (mixed kinds, descending widths): each row must still be its own template's response
    from numba import typed

    from sigpyproc.core import kernels
    from sigpyproc.core.filters import Template

    pool = [Template.gen_boxcar(int(wd)) for wd in rng.integers(1, max(2, nbmax), size=3)]
    pool += [Template.gen_gaussian(float(rng.uniform(1, max(1.5, nbmax / 4))))]
    if n > 8 * nbmax:
        pool += [Template.gen_lorentzian(float(rng.uniform(1, max(1.5, nbmax / 4))))]
    pool = [t for t in pool if t.data.size <= n]
    order = rng.permutation(len(pool))
    pool = [pool[i] for i in order]
    zs = np.asarray(mf.zscores.data, dtype=np.float32)
    got2 = np.asarray(kernels.convolve_templates(zs, typed.List([np.asarray(t.data, dtype=np.float32) if kind == "x" else t.data.astype(zs.dtype) for t in pool]),
                                                 typed.List([int(t.ref_bin) for t in pool])), dtype=np.float64)
    want2 = oracle_convs(z, [(np.asarray(t.data, dtype=np.float32).astype(np.float64), int(t.ref_bin)) for t in pool], L)
    ctx.count("kernel_direct_unsorted_bank")
    ctx.count("responses_compared", int(want2.size))
    if got2.shape != want2.shape or np.abs(got2 - want2).max() > tol:
        k2 = int(np.argmax(np.abs(got2 - want2).max(axis=1)))
        ctx.violation("response-values:kernel-direct:unsorted-bank", f"convolve_templates row {k2} (template sizes {[int(t.data.size) for t in pool]}) differs from its own template's inner products by {np.abs(got2 - want2).max():.3e}", one)
        return
    if ctx.evaluations % 4 == 3:
        # drawing the diagnostic figure is a read-only use of the filter: responses and summary values are the same afterwards
        import matplotlib

        matplotlib.use("Agg")
        import matplotlib.pyplot as plt

        snap = (np.array(mf.convs, copy=True), float(mf.snr), int(mf.peak_bin), np.array(np.asarray(mf.zscores.data), copy=True))
        try:
            fig = mf.plot()
            plt.close(fig if fig is not None else "all")
            ctx.count("plot_then_read_checks")
            if not (np.array_equal(np.asarray(mf.convs), snap[0]) and float(mf.snr) == snap[1] and int(mf.peak_bin) == snap[2] and np.array_equal(np.asarray(mf.zscores.data), snap[3])):
                ctx.violation("filter-changed-by-plot", "responses / z-scores / S/N / peak bin read after MatchedFilter.plot() differ from those read before it", one)
                return
        except Exception as exc:  # noqa: BLE001
            ctx.count("plot_unavailable")
            plt.close("all")
    if len(bank) >= 2:
        ctx.nontrivial_case(one)
    if ctx.evaluations % 10 == 1:
        ctx.sample({"params": one["params"], "L": L, "ntemplates": len(bank), "snr": float(mf.snr), "peak_bin": int(mf.peak_bin), "max_err": float(err.max())})


def _invariance(ctx, mf, x, offset, opts, one):
    """Adding a constant never changes the responses (templates are zero-mean, whatever the centring option); a positive scaling does not
    either unless the scale estimate is switched off."""
    from sigpyproc.core.filters import MatchedFilter

    convs = np.asarray(mf.convs, dtype=np.float64)
    z = np.asarray(mf.zscores.data, dtype=np.float64)
    x64 = x.astype(np.float64)
    zc = float(np.linalg.norm(z - z.mean()))
    s_est = float(np.linalg.norm(x64 - x64.mean())) / zc if zc > 0 else 1.0
    cmax = max(1.0, float(np.abs(convs).max()))
    support = max(int(np.asarray(t.data).size) for t in mf.temp_bank)
    for a, b in ((0.5, -7.0), (3.0, 1000.0), (100.0, 0.0), (1.0, 1.0e4), (1.0, -1.0e3)):
        if a != 1.0 and opts["scale_method"] == "norm":
            continue
        ctx.count("invariance_checks")
        if opts["loc_method"] == "norm" and b:
            ctx.count("invariance:offset_with_centring_off")
        mf2 = MatchedFilter((a * x64 + b).astype(np.float32), **opts)
        d = np.abs(np.asarray(mf2.convs, dtype=np.float64) - convs).max()
        # rounding a*x+b to float32: half an ulp of the level per sample, in z units, spread over a template (l1 <= sqrt(support)) and through the scale estimate
        q = 6e-8 * (abs(a * offset + b) / (a * s_est) + 10.0)
        tol_d = _tol(z) + _tol(mf2.zscores.data) + 4.0 * (np.sqrt(support) + cmax) * q
        if d > tol_d:
            ctx.violation(f"affine-invariance:{opts['temp_kind']}{':centring-off' if opts['loc_method'] == 'norm' else ''}",
                          f"responses change by {d:.3e} (> {tol_d:.1e}) under x -> {a}*x+{b} (n={x.size}, loc={opts['loc_method']}, scale={opts['scale_method']})", one)
            return False
    return True


def _long(case, ctx, rng):
    """Long series (thousands of bins): running-sum or accumulated-phase shortcuts lose precision only here."""
    from sigpyproc.core.filters import MatchedFilter

    n = int(rng.choice([4096, 5000, 3001, 8192]))
    kind = str(rng.choice(KINDS))
    if case.get("n"):       # a series of more than 2^17 bins (block-wise convolution paths) with a template whose reference bin is not 0
        n, kind = int(case["n"]), str(case["tkind"])
        ctx.count("regime:series_over_2^17_bins")
    nbmax = int(rng.choice([16, 32, 64]))
    spacing = float(rng.choice([1.5, 2.0]))
    loc_m = str(rng.choice(["median", "norm", "mean"]))
    scale_m = str(rng.choice(["iqr", "mad", "std"]))
    offset = float(rng.choice([0.0, 1e3, 1e4]))
    sigma = 1.0
    if case["seed"] % 4 == 1:   # a baseline 10^5..10^6 times the noise level, noise sigma far from 1 (still well resolved in single precision)
        sigma, offset = [(0.05, 2.0e4), (0.35, 5.0e5), (0.05, -2.0e4)][case["seed"] // 4 % 3]
        ctx.count("regime:baseline_1e5_times_noise")
    x = (rng.normal(size=n) * sigma + offset).astype(np.float32)
    pos, w = int(rng.integers(0, n)), int(rng.integers(1, nbmax))
    x[(pos + np.arange(w)) % n] += np.float32(rng.uniform(5, 15) * sigma)
    one = dict(case, params={"n": n, "kind": kind, "nbins_max": nbmax, "spacing": spacing, "pos": pos, "w": w, "offset": offset, "loc": loc_m, "scale": scale_m})
    ctx.evaluated(); ctx.count("long_series"); ctx.count(f"kind:{kind}")
    opts = dict(loc_method=loc_m, scale_method=scale_m, temp_kind=kind, nbins_max=nbmax, spacing_factor=spacing)
    try:
        mf = MatchedFilter(x, **opts)
    except Exception as exc:  # noqa: BLE001
        ctx.violation(f"raised:{kind}:{type(exc).__name__}@{exc_site(exc)}", fmt_exc(exc), one)
        return
    z = np.asarray(mf.zscores.data, dtype=np.float64)
    bank = [(np.asarray(t.data, dtype=np.float64), int(t.ref_bin)) for t in mf.temp_bank]
    convs = np.asarray(mf.convs, dtype=np.float64)
    want = oracle_convs_fft64(z, bank)
    ctx.count("responses_compared", int(want.size))
    if loc_m == "norm" and offset:
        ctx.count("regime:uncentred_data_with_baseline")
    if convs.shape != want.shape or np.abs(convs - want).max() > _tol(z):
        ctx.violation(f"response-values:{kind}:long-series{':centring-off' if loc_m == 'norm' else ''}",
                      f"n={n}: max |response - inner product| = {np.abs(convs - want).max() if convs.shape == want.shape else 'shape'} > {_tol(z):.1e} (baseline {offset}, loc={loc_m})", one)
        return
    if _invariance(ctx, mf, x, offset, opts, one):
        ctx.nontrivial_case(one)


def _fullwidth(case, ctx, rng):
    """Banks whose widest boxcar is as long as the data (a short profile with the default bank, or nbins_max = len(data)): that template
    is constant over the whole length, i.e. zero after mean removal.  Every response must stay finite and S/N, peak bin and best template
    must be the maximum over the informative templates."""
    from sigpyproc.core.filters import MatchedFilter

    n = int(rng.choice([16, 28, 32, 45, 64]))
    spacing = [1.0, 1.5, 1.0, 2.0][case["seed"] % 4]     # spacing 1 steps through every width up to the data length
    x = rng.normal(size=n).astype(np.float32)
    w, pos = int(rng.integers(1, max(2, n // 4))), int(rng.integers(0, n))
    if case["seed"] % 4 == 2:          # a dense bank of more than 32 widths whose best match is one of the wide ones
        n = int(rng.choice([96, 128]))
        x = rng.normal(size=n).astype(np.float32)
        w, pos = int(rng.integers(36, 56)), int(rng.integers(0, n))
        ctx.count("argmax:wide_pulse_in_dense_bank")
    x[(pos + np.arange(w)) % n] += np.float32(rng.uniform(5, 12))
    one = dict(case, params={"n": n, "nbins_max": n, "spacing": spacing, "pos": pos, "w": w})
    ctx.evaluated(); ctx.count("bank_with_template_as_wide_as_data"); ctx.count("kind:boxcar")
    try:
        mf = MatchedFilter(x, temp_kind="boxcar", nbins_max=n, spacing_factor=spacing)
    except ValueError:
        ctx.count("fullwidth_refused")
        return
    except Exception as exc:  # noqa: BLE001
        ctx.violation(f"raised:boxcar:{type(exc).__name__}@{exc_site(exc)}", fmt_exc(exc), one)
        return
    convs = np.asarray(mf.convs, dtype=np.float64)
    widths = [int(t.width) for t in mf.temp_bank]
    if n in widths:
        ctx.count("fullwidth_template_present")
    if not np.all(np.isfinite(convs)) or not np.isfinite(float(mf.snr)):
        ctx.violation("non-finite-response:template-as-wide-as-data", f"n={n}: bank widths {widths}: responses contain NaN/inf (S/N {mf.snr!r}) - a template that is constant over the data carries no information, its response is 0", one)
        return
    z = np.asarray(mf.zscores.data, dtype=np.float64)
    bank = [(np.asarray(t.data, dtype=np.float64), int(t.ref_bin)) for t in mf.temp_bank]
    want = oracle_convs(z, bank, n)
    ctx.count("responses_compared", int(want.size))
    if convs.shape != want.shape or np.abs(convs - want).max() > _tol(z):
        ctx.violation("response-values:boxcar:template-as-wide-as-data", f"n={n}: bank widths {widths}: max |response - inner product| = {np.abs(convs - want).max() if convs.shape == want.shape else 'shape'}", one)
        return
    k0, t0 = (int(v) for v in np.unravel_index(np.argmax(convs), convs.shape))
    ctx.count("argmax_checks")
    if float(mf.snr) != float(np.asarray(mf.convs).max()) or (mf.peak_bin != t0 and convs[k0, t0] != convs[[i for i, t in enumerate(mf.temp_bank) if t is mf.best_temp][0], mf.peak_bin]):
        ctx.violation("argmax:boxcar:template-as-wide-as-data", f"snr={mf.snr!r} peak_bin={mf.peak_bin}; max response {convs.max()!r} at template {k0} bin {t0}", one)
        return
    kb = [i for i, t in enumerate(mf.temp_bank) if t is mf.best_temp]
    if len(mf.temp_bank) > 32:
        ctx.count("argmax:bank_of_more_than_32_templates")
    if not kb or convs[kb[0], mf.peak_bin] != convs.max():      # the reported template is the one whose response holds the maximum (ties aside)
        ctx.violation("argmax:best-template:dense-bank", f"best_temp is template {kb[0] if kb else None} (width {mf.best_temp.width}) whose response at the peak bin is not the maximum, held by template {k0} (width {mf.temp_bank[k0].width}) of {len(mf.temp_bank)}", one)
        return
    ctx.nontrivial_case(one)


def _boxcar(case, ctx, rng):
    from sigpyproc.core.filters import MatchedFilter

    n = int(rng.choice([200, 211, 256, 300, 509]))
    nbmax = int(rng.choice([8, 16, 32]))
    spacing = float(rng.choice([1.5, 2.0]))
    widths = [int(w) for w in MatchedFilter.get_box_width_spacing(nbmax, spacing)]
    keepers = []
    buf = np.zeros(n, dtype=np.float32)     # one work buffer reused for every profile, cleared as soon as the filter has been built
    for w in widths:
        for start in (0, 1, n // 3, n - w):
            buf.fill(0)
            buf[start : start + w] = 1.0
            x = buf
            one = dict(case, params={"n": n, "nbins_max": nbmax, "spacing": spacing, "w": w, "start": start})
            ctx.evaluated(); ctx.count("boxcar_recoveries")
            try:
                mf = MatchedFilter(x, temp_kind="boxcar", nbins_max=nbmax, spacing_factor=spacing)
                buf.fill(-3.0)              # the caller's array changes after construction: the filter describes the data it was given
                ctx.count("input_buffer_reused_after_construction")
            except Exception as exc:  # noqa: BLE001
                ctx.violation(f"boxcar-raised:{type(exc).__name__}@{exc_site(exc)}", fmt_exc(exc), one)
                return
            # filters built earlier in this sweep are still alive: each keeps describing its own data after the others were built
            keepers.append((mf, np.array(mf.convs, copy=True), int(mf.peak_bin), float(mf.snr)))
            for omf, oconvs, opk, osnr in keepers[-4:-1]:
                ctx.count("held_filter_checks")
                if not np.array_equal(np.asarray(omf.convs), oconvs) or int(omf.peak_bin) != opk or float(omf.snr) != osnr or float(np.asarray(omf.convs).max()) != osnr:
                    ctx.violation("earlier-filter-changed-by-later-construction", f"n={n}: the responses of a MatchedFilter built earlier changed when another filter of the same shape was constructed", one)
                    return
            if mf.peak_bin != start or int(mf.best_temp.width) != w:
                L = _good(n)
                pos = ("edge" if start in (0, n - w) else "interior") + ("" if _fft_friendly(n) else ":n-not-fft-friendly")
                ctx.violation(f"boxcar-recovery[{pos}]", f"noiseless boxcar width {w} at {start} (n={n}) recovered as width {mf.best_temp.width} at bin {mf.peak_bin}", one)
                continue
            ctx.nontrivial_case(one)
