"""C11 - folding puts every sample in exactly one bin fixed by the phase model."""
from __future__ import annotations

import os

import numpy as np

from vlib import sigfile
from vlib.core import exc_site, fmt_exc
from vlib.redzone import Frame

AUDIT_INPUT_FILES = True   # after every case the driver verifies that the synthesised input files still hold their bytes
PROPERTY = "C11"
LEVEL = "exploration"
CLAIM = {
    "text": "Exploration by runtime monitoring: for seeded random fold geometries (period/tsamp ratios, accelerations, nbins 2..64, nints 1..8, nbands incl. non-divisors of nchans, DMs incl. gulp < 2*maxdelay) the fold kernel is driven directly on red-zone framed arrays to observe fold_ar/count_ar (conservation: counts sum to (nsamps-maxdelay)*nchans; every cell's count and exact integer sum equal the phase-model oracle), Filterbank.fold is run for several gulps (cube bit-identical across gulps, equal to the oracle's per-cell mean, NaN exactly where the oracle count is 0) and TimeSeries.fold is checked the same way; a strictly periodic pulse train folded at its period must occupy one phase bin in every sub-integration. Added: TimeSeries.fold of 2^18 .. 2^20 samples against the phase model, phases that are exactly integral in double arithmetic are judged strictly (the sample belongs to the bin that starts at the edge), and commensurate pulse trains are folded into bin counts that put samples exactly on bin edges; input files are re-hashed after every case. Rounds 7-8 added: series whose header carries an acceleration label and files whose header carries a reference DM (both are labels, the fold uses what it is asked for). Round 9 added: the same fold repeated on one series object after the cube was re-tuned and the samples changed in place. Round 10 added: stretches of all-zero samples longer than several read blocks.",
    "design_ref": "DESIGN.md section 3 (C11), 2.2",
    "note": "Trusted: float64 evaluation of the documented phase formula from the float32-rounded tsamp/period/accel the kernel receives. Samples whose phase lies within 1e-9 (relative) of a bin boundary are ambiguous: if a strict comparison fails and such samples exist, only the per-(subint,subband) totals are judged. Whole-file folds only (start=0), delays >= 0.",
    "technique": "runtime monitoring: phase-model reference oracle on kernel accumulators + conservation check + gulp-independence + red-zone canaries",
}
ASSUMPTIONS = ["integer-valued samples so float32 sums are exact", "descending band and DM >= 0 (all delays >= 0)"]
RULE = ("random geometries: N 200..3000, nchans {1,2,4,8,16}, depth {8,32}, nbins 2..64, nints 1..8, nbands 1..nchans, period/tsamp 2..500, accel in {0,+-1e3,+-5e4}, "
        "DM giving maxdelay 0..N/4, gulps {N, N/3, 2*maxdelay-ish, 17}. Non-trivial = >= 2 occupied bins; distinct = distinct case record.")
C_LIGHT = 299792458.0


def REQUIRED(tier):
    return ["kernel_direct", "filterbank_fold", "timeseries_fold", "pulse_train", "conservation_checks", "cell_count_checks", "gulp_identity_checks",
            "regime:gulp<2*maxdelay", "regime:nbands_not_dividing", "regime:accel!=0", "regime:multi_block", "canary_audits", "regime:multi_file_input", "long_folds", "pulse_train_edge_bins", "regime:nbands>nchans", "regime:small_accel_long_fold", "subint_edge_folds", "regime:fold_after_a_failed_fold", "regime:series_header_carries_accel", "regime:file_header_carries_refdm", "fold_again_after_in_place_change", "data:all_zero_stretch_longer_than_a_read_block"]


def cases(tier, seed):
    n = 600 if tier == "quick" else 8000
    for i in range(n):
        yield {"kind": "geom", "seed": int(seed) * 100003 + i}
    for i in range(max(10, n // 10)):
        yield {"kind": "pulse", "seed": int(seed) * 100003 + i}
    for i in range(6 if tier == "quick" else 60):
        yield {"kind": "long", "seed": int(seed) * 100003 + i}
    # series whose length is an exact multiple of the number of sub-integrations: the edges fall on integer samples
    geoms = [(8826, 6), (11050, 13), (42476, 28), (67060, 35), (10000, 10), (4900, 49), (9800, 7), (30030, 11), (50050, 26), (21000, 21)]
    for i, (N, nints) in enumerate(geoms if tier == "quick" else geoms + [(int(k * m), int(m)) for k, m in zip(range(401, 461), list(range(3, 33)) * 2)]):
        yield {"kind": "edges", "N": N, "nints": nints, "seed": int(seed) * 100003 + i}


def oracle_cells(N, maxdelay, index0, nfold, tsamp32, period32, accel32, total, nbins, nints):
    t = np.arange(nfold, dtype=np.float64) + index0
    tj = t * np.float64(tsamp32)
    tobs = total * np.float64(tsamp32)
    phase = nbins * tj * (1 + np.float64(accel32) * (tj - tobs) / (2 * C_LIGHT)) / np.float64(period32) + 0.5
    # ambiguous only when *almost* on a bin edge; a phase that is exactly an integer in double arithmetic is not ambiguous
    # (the documented formula truncates: the sample belongs to the bin that starts at the edge)
    amb = (np.abs(phase - np.round(phase)) < 1e-9 * np.maximum(1.0, np.abs(phase))) & (phase != np.round(phase))
    pbin = np.abs(np.trunc(phase)).astype(np.int64) % nbins
    sub = np.floor_divide(t, total / nints).astype(np.int64)
    return pbin, sub, amb


def oracle_cube(x, delays, nbins, nints, nbands, tsamp32, period32, accel32, total):
    """x (N, nch) float64. Returns (sum cube, count cube, any ambiguous)."""
    N, nch = x.shape
    md = int(delays.max()) if nch else 0
    nfold = N - md
    pbin, sub, amb = oracle_cells(N, md, 0, nfold, tsamp32, period32, accel32, total, nbins, nints)
    sums = np.zeros((nints, nbands, nbins))
    cnts = np.zeros((nints, nbands, nbins), dtype=np.int64)
    band = np.floor_divide(np.arange(nch, dtype=np.float64), nch / nbands).astype(np.int64)
    for c in range(nch):
        vals = x[delays[c] : delays[c] + nfold, c]
        np.add.at(sums, (sub, band[c], pbin), vals)
        np.add.at(cnts, (sub, band[c], pbin), 1)
    return sums, cnts, bool(amb.any())


def _compare(ctx, one, what, got_sum, got_cnt, sums, cnts, amb):
    """got_* shaped (nints, nbands, nbins). Returns True if consistent."""
    ctx.count("cell_count_checks")
    if np.array_equal(got_cnt, cnts) and np.array_equal(got_sum, sums):
        return True
    if amb:
        ctx.count("ambiguous_phase_cases")
        if np.array_equal(got_cnt.sum(axis=2), cnts.sum(axis=2)) and np.allclose(got_sum.sum(axis=2), sums.sum(axis=2)):
            return True
    bad = np.argwhere((got_cnt != cnts) | (got_sum != sums))
    i = tuple(int(v) for v in bad[0])
    ctx.violation(f"cell-mismatch:{what}", f"cell (subint,band,bin)={i}: count {int(got_cnt[i])} sum {float(got_sum[i])}, phase model gives count {int(cnts[i])} sum {float(sums[i])} "
                  f"({len(bad)} of {cnts.size} cells differ)", one)
    return False


def _long(case, ctx):
    """Many rotations: phase errors that grow with time (e.g. a period evaluated in single precision) need 10^5..10^6 samples."""
    from sigpyproc.header import Header
    from sigpyproc.timeseries import TimeSeries

    rng = np.random.default_rng([case["seed"], 13])
    N = int(rng.choice([1 << 18, 300000, 1 << 20]))
    tsamp = float(rng.choice([6.4e-5, 1e-3, 8.192e-5]))
    period = float(rng.uniform(5, 300)) * tsamp * (1 + 1e-3 * rng.random())
    nbins, nints = int(rng.integers(8, 65)), int(rng.integers(1, 9))
    accel = float(rng.choice([0.0, 0.0, 25.0, -300.0]))
    if case["seed"] % 2:      # accelerations that change the phase by far less than a bin per sample but by bins over the whole observation
        accel = float([0.8, 4.0, -2.5][case["seed"] // 2 % 3])
        ctx.count("regime:small_accel_long_fold")
    x = rng.integers(0, 16, size=N).astype(np.float32)
    one = dict(case, geom={"N": N, "tsamp": tsamp, "period": period, "nbins": nbins, "nints": nints, "accel": accel})
    ctx.evaluated(); ctx.count("long_folds")
    # the series itself may carry an acceleration label (it was resampled earlier): the fold uses the acceleration it is asked for
    labelled = case["seed"] % 100003 % 2 == 0
    hdr = Header(filename="x.tim", data_type="time series", nchans=1, foff=-1.0, fch1=1400.0, nbits=32, tsamp=tsamp, tstart=58000.0, nsamples=N,
                 **({"accel": 450.0} if labelled else {}))
    if labelled:
        ctx.count("regime:series_header_carries_accel")
    with np.errstate(all="ignore"):
        fd = TimeSeries(x, hdr).fold(period, accel=accel, nbins=nbins, nints=nints)
    s1, c1, a1 = oracle_cube(x.astype(np.float64)[:, None], np.zeros(1, dtype=np.int64), nbins, nints, 1, np.float32(tsamp), np.float32(period), np.float32(accel), N)
    with np.errstate(all="ignore"):
        w1 = s1 / c1
    got = np.asarray(fd.data)
    ok = got.shape == w1.shape and np.array_equal(np.isnan(got), c1 == 0) and np.allclose(got[c1 > 0], w1[c1 > 0], rtol=3e-7, atol=0)
    if not ok:
        nd = int(np.sum(~np.isclose(got, w1, rtol=3e-7, atol=0, equal_nan=True))) if got.shape == w1.shape else -1
        # a handful of genuinely ambiguous samples may move a cell mean by a little; a wrong phase model moves most cells
        if a1 and 0 <= nd <= 4:
            ctx.count("ambiguous_phase_cases")
        else:
            ctx.violation("long-fold-cells", f"TimeSeries.fold of {N} samples: {nd} of {w1.size} cells differ from the phase-model mean (period/tsamp={period/tsamp:.3f}, nbins={nbins}, nints={nints}, accel={accel})", one)
            return
    # the same call again on the same series object after the caller has looked at the cube (re-tuned it) and added 1 to every sample: the
    # second cube is that of the samples the series holds now
    tsr = TimeSeries(x.copy(), hdr)
    with np.errstate(all="ignore"):
        fda = tsr.fold(period, accel=accel, nbins=nbins, nints=nints)
        first = np.array(fda.data, copy=True)
        fda.update_period(period * (1 + 1e-4))
        np.asarray(tsr.data)[...] += 1.0
        fdb = tsr.fold(period, accel=accel, nbins=nbins, nints=nints)
    ctx.evaluated(); ctx.count("fold_again_after_in_place_change")
    if not np.allclose(np.asarray(fdb.data), first + 1.0, rtol=1e-6, atol=0, equal_nan=True):
        ctx.violation("second-fold-is-not-of-the-current-samples", f"TimeSeries.fold repeated with the same arguments after the cube was re-tuned and the samples were raised by 1: the second cube is not the first + 1", one)
        return
    ctx.nontrivial_case(one)
    if case["seed"] % 3 == 0:
        ctx.sample({"kind": "long", "geom": one["geom"], "occupied_cells": int(np.count_nonzero(c1))})


def _edges(case, ctx):
    """Every sample belongs to the sub-integration floor(t * nints / N): with N a multiple of nints the first sample of sub-integration k is
    t = k*N/nints exactly.  The input is k+1 throughout sub-integration k, so every cell of sub-integration k must equal k+1 whatever its phase."""
    from sigpyproc.header import Header
    from sigpyproc.timeseries import TimeSeries

    N, nints = int(case["N"]), int(case["nints"])
    rng = np.random.default_rng([case["seed"], 17])
    tsamp = float(rng.choice([6.4e-5, 1e-3, 2.0 ** -13]))
    nbins = min(int(rng.choice([4, 8, 16])), N // (nints * 10))    # enough samples per cell (the property's domain)
    if nbins < 2:
        ctx.skip("too few samples per cell for an edge fold"); ctx.evaluated(); return
    period = float(rng.uniform(5, 40)) * tsamp
    step = N // nints
    x = (np.arange(N) // step + 1).astype(np.float32)
    one = dict(case, geom={"tsamp": tsamp, "nbins": nbins, "period": period})
    ctx.evaluated(); ctx.count("subint_edge_folds")
    hdr = Header(filename="x.tim", data_type="time series", nchans=1, foff=-1.0, fch1=1400.0, nbits=32, tsamp=tsamp, tstart=58000.0, nsamples=N)
    with np.errstate(all="ignore"):
        cube = np.asarray(TimeSeries(x, hdr).fold(period, nbins=nbins, nints=nints).data)
    want = np.arange(1, nints + 1, dtype=np.float64)[:, None, None] * np.ones((nints, 1, nbins))
    bad = ~np.isnan(cube) & (cube != want)
    if cube.shape != want.shape or np.any(bad):
        k = int(np.argwhere(bad)[0][0]) if cube.shape == want.shape else -1
        ctx.violation("sample-in-wrong-subintegration", f"TimeSeries.fold of {N} samples into {nints} sub-integrations: a cell of sub-integration {k} holds {cube[tuple(np.argwhere(bad)[0])] if k >= 0 else cube.shape} "
                      f"although every sample of that sub-integration equals {k + 1} (an edge sample was filed with its neighbour)", one)
        return
    ctx.nontrivial_case(one)


def run_case(case, ctx):
    if case["kind"] == "pulse":
        return _pulse(case, ctx)
    if case["kind"] == "edges":
        return _edges(case, ctx)
    if case["kind"] == "long":
        return _long(case, ctx)
    from sigpyproc.core import kernels
    from sigpyproc.readers import FilReader
    from sigpyproc.timeseries import TimeSeries

    rng = np.random.default_rng([case["seed"], 11])
    nbits = int(rng.choice([8, 32]))
    nch = int(rng.choice([1, 2, 4, 8, 16]))
    N = int(rng.integers(200, 3000))
    tsamp = float(rng.choice([6.4e-5, 1e-3, 2.0 ** -10, float(10 ** rng.uniform(-5, -2))]))
    ratio = float(rng.uniform(2, 500))
    period = ratio * tsamp
    nbins = int(rng.integers(2, 65))
    nints = int(rng.integers(1, 9))
    nbands = int(rng.integers(1, nch + 1))
    while (N * nch) // (nbands * nints * nbins) < 10:
        if nbins > 2:
            nbins = max(2, nbins // 2)
        elif nints > 1:
            nints -= 1
        else:
            nbands = 1
            break
    accel = float(rng.choice([0.0, 0.0, 1e3, -1e3, 5e4, -5e4]))
    fch1, foff = 1500.0, -float(rng.choice([1.0, 10.0, 25.0]))
    X = sigfile.random_samples(rng, N, nch, nbits, small=True)
    if case["seed"] % 100003 % 5 == 2 and N >= 120:
        # a stretch of samples that are zero in every channel (dropped packets, a blanked cal signal) longer than several read blocks:
        # those samples are folded like any others (they lower the means of their cells and count as hits)
        z0 = int(N // 4)
        X[z0 : z0 + N // 2] = 0
        ctx.count("data:all_zero_stretch_longer_than_a_read_block")
    Xf = X.astype(np.float64)
    frng = np.random.default_rng([case["seed"], 111])
    nfiles = int(frng.choice([1, 1, 2, 3]))
    cuts = sorted(frng.choice(np.arange(1, N), size=nfiles - 1, replace=False).tolist()) if nfiles > 1 else []
    split = [b - a for a, b in zip([0] + cuts, cuts + [N])]
    dd = os.path.join(ctx.tmp, "c11in")
    os.makedirs(dd, exist_ok=True)
    # the reference DM a file carries in its header is a label: the fold is made at the DM it is asked for
    labelled = case["seed"] % 100003 % 4 == 1
    if labelled:
        ctx.count("regime:file_header_carries_refdm")
    paths = sigfile.write_split(dd, X, nbits, split, fch1=fch1, foff=foff, tsamp=tsamp, **({"refdm": 12.5} if labelled else {}))
    if nfiles > 1:
        ctx.count("regime:multi_file_input")
    fil = FilReader(paths, check_contiguity=False) if nfiles > 1 else FilReader(paths[0])
    dm = float(rng.choice([0.0, rng.uniform(0, 200)]))
    delays = np.asarray(fil.header.get_dmdelays(dm)).reshape(-1).astype(np.int32)
    md = int(delays.max())
    if md >= N // 4 or delays.min() < 0:
        dm, delays, md = 0.0, np.zeros(nch, dtype=np.int32), 0
    one = dict(case, geom={"N": N, "nchans": nch, "nbits": nbits, "tsamp": tsamp, "period": period, "nbins": nbins, "nints": nints, "nbands": nbands,
                           "accel": accel, "dm": dm, "maxdelay": md, "split": split})
    ts32, p32, a32 = np.float32(tsamp), np.float32(period), np.float32(accel)
    if accel:
        ctx.count("regime:accel!=0")
    if nch % nbands:
        ctx.count("regime:nbands_not_dividing")
    sums, cnts, amb = oracle_cube(Xf, delays.astype(np.int64), nbins, nints, nbands, fil.header.tsamp, period, accel, N)
    sums32, cnts32, amb32 = oracle_cube(Xf, delays.astype(np.int64), nbins, nints, nbands, ts32, p32, a32, N)
    if np.count_nonzero(cnts32) >= 2:
        ctx.nontrivial_case(one)

    # ---- (i) kernel, directly, red-zone framed, in two blocks with the overlap convention
    ctx.evaluated(); ctx.count("kernel_direct")
    fr = Frame(rng)
    fold_ar = fr.alloc(nbins * nints * nbands, np.float32, "fold_ar", fill=0)
    count_ar = fr.alloc(nbins * nints * nbands, np.int32, "count_ar", fill=0)
    dl = fr.like(delays, "delays")
    cut = int(rng.integers(md + 1, N)) if N - md > 2 else N
    blocks = [(0, cut), (cut - md, N)] if cut < N else [(0, N)]
    try:
        for lo, hi in blocks:
            if hi - lo <= md:
                continue
            data = fr.like(np.ascontiguousarray(X[lo:hi]).ravel(), "block")
            kernels.fold(data, fold_ar, count_ar, dl, md, tsamp, period, accel, N, hi - lo, nch, nbins, nints, nbands, lo)
    except Exception as exc:  # noqa: BLE001
        ctx.violation(f"kernel-raised:{type(exc).__name__}@{exc_site(exc)}", fmt_exc(exc), one)
        return
    ctx.count("canary_audits")
    bad = fr.audit()
    if bad:
        ctx.violation("oob-store:fold-kernel", f"guard zone modified: {bad}", one)
        return
    ctx.count("conservation_checks")
    if int(count_ar.sum()) != (N - md) * nch:
        ctx.violation("conservation", f"hit counts sum to {int(count_ar.sum())}, folded samples x channels = {(N - md) * nch}", one)
        return
    shape = (nints, nbands, nbins)
    if not _compare(ctx, one, "kernel", fold_ar.astype(np.float64).reshape(shape), count_ar.astype(np.int64).reshape(shape), sums32, cnts32, amb32):
        return

    # ---- (ii) Filterbank.fold for several gulps
    gulps = [10 * N, max(1, N // 3), 17]
    if md:
        gulps.append(max(1, md))  # < 2*maxdelay: the library must raise it
        ctx.count("regime:gulp<2*maxdelay")
    if case["seed"] % 4 == 1 and N >= 40:
        # an earlier fold of the same dimensions in this process failed part-way (an input with stray bytes after its last sample raises on the last read)
        badp = os.path.join(dd if nfiles > 1 else os.path.dirname(paths[0]), "ragged.fil")
        with open(paths[0], "rb") as fh:
            rawb = fh.read()
        with open(badp, "wb") as fh:
            fh.write(rawb + b"\x07")
        try:
            with np.errstate(all="ignore"):
                FilReader(badp).fold(period, dm, accel=accel, nbins=nbins, nints=nints, nbands=nbands, gulp=max(2 * md + 1, 17), quiet=True, description="v")
        except Exception:  # noqa: BLE001
            ctx.count("regime:fold_after_a_failed_fold")
        finally:
            os.unlink(badp)
    cubes = []
    for g in gulps:
        ctx.evaluated(); ctx.count("filterbank_fold")
        if max(g, 2 * md) < N:
            ctx.count("regime:multi_block")
        try:
            with np.errstate(all="ignore"):
                fd = fil.fold(period, dm, accel=accel, nbins=nbins, nints=nints, nbands=nbands, gulp=g, quiet=True, description="v")
        except Exception as exc:  # noqa: BLE001
            ctx.violation(f"fold-raised:{type(exc).__name__}@{exc_site(exc)}", f"Filterbank.fold(gulp={g}) raised {fmt_exc(exc)}", one)
            return
        cube = np.asarray(fd.data)
        if cube.shape != shape:
            ctx.violation("cube-shape", f"cube shape {cube.shape}, expected {shape}", one)
            return
        cubes.append((g, cube))
    g0, c0 = cubes[0]
    with np.errstate(all="ignore"):
        want = (sums32 / cnts32)
    nanmask = cnts32 == 0
    ok = np.array_equal(np.isnan(c0), nanmask) and np.allclose(c0[~nanmask], want[~nanmask], rtol=2e-7, atol=0)
    if not ok and not amb32:
        ctx.violation("cube-values", f"Filterbank.fold cube differs from the per-cell mean of the phase model (NaN pattern equal: {np.array_equal(np.isnan(c0), nanmask)})", one)
        return
    if not ok:
        ctx.count("ambiguous_phase_cases")
    for g, c in cubes[1:]:
        ctx.count("gulp_identity_checks")
        if not np.array_equal(c, c0, equal_nan=True):
            nd = int(np.sum(~((c == c0) | (np.isnan(c) & np.isnan(c0)))))
            ctx.violation("gulp-dependence", f"cube for gulp={g} differs from gulp={g0} in {nd} cells (maxdelay={md})", one)
            return

    # ---- more sub-bands requested than there are channels (the default of 32 on a narrow file): one band per channel, or a refusal
    if N // (nints * nbins) >= 10:
        sB, cB, aB = oracle_cube(Xf, delays.astype(np.int64), nbins, nints, nch, ts32, p32, a32, N)
        with np.errstate(all="ignore"):
            wB = sB / cB
        for kw in ({"nbands": nch + 1 + int(rng.integers(0, 40))}, {} if nch < 32 else {"nbands": 2 * nch}):
            ctx.evaluated(); ctx.count("regime:nbands>nchans")
            try:
                with np.errstate(all="ignore"):
                    fdB = fil.fold(period, dm, accel=accel, nbins=nbins, nints=nints, gulp=gulps[0], quiet=True, description="v", **kw)
            except ValueError:
                ctx.count("nbands>nchans_refused")
                continue
            except Exception as exc:  # noqa: BLE001
                ctx.violation(f"fold-raised:{type(exc).__name__}@{exc_site(exc)}", f"Filterbank.fold({kw or 'default nbands'}) on {nch} channels raised {fmt_exc(exc)}", one)
                return
            cB_ = np.asarray(fdB.data)
            okB = cB_.shape == (nints, nch, nbins) and np.array_equal(np.isnan(cB_), cB == 0) and np.allclose(cB_[cB > 0], wB[cB > 0], rtol=2e-7, atol=0)
            if not okB and not aB:
                ctx.violation("cube-values[nbands>nchans]", f"Filterbank.fold({kw or 'default nbands=32'}) on {nch} channels: cube shape {cB_.shape}, expected one band per channel {(nints, nch, nbins)} holding the phase-model means", one)
                return

    # ---- (iii) TimeSeries.fold on the first channel
    ctx.evaluated(); ctx.count("timeseries_fold")
    ts = fil.read_chan(0, quiet=True, description="v")
    try:
        if ts.data.size // (nbins * nints) >= 10:
            with np.errstate(all="ignore"):
                fd = ts.fold(period, accel=accel, nbins=nbins, nints=nints)
            s1, c1, a1 = oracle_cube(Xf[:, :1], np.zeros(1, dtype=np.int64), nbins, nints, 1, ts32, p32, a32, N)
            with np.errstate(all="ignore"):
                w1 = s1 / c1
            got = np.asarray(fd.data)
            if got.shape != (nints, 1, nbins):
                ctx.violation("ts-cube-shape", f"{got.shape}", one)
            elif not (np.array_equal(np.isnan(got), c1 == 0) and np.allclose(got[c1 > 0], w1[c1 > 0], rtol=2e-7)) and not a1:
                ctx.violation("ts-cube-values", "TimeSeries.fold cube differs from the phase-model mean", one)
    except Exception as exc:  # noqa: BLE001
        ctx.violation(f"ts-fold-raised:{type(exc).__name__}@{exc_site(exc)}", fmt_exc(exc), one)
    if ctx.evaluations % 60 < 6:
        ctx.sample({"geom": one["geom"], "occupied_cells": int(np.count_nonzero(cnts32)), "cells": int(cnts32.size), "gulps": gulps, "kernel_blocks": blocks})


def _pulse(case, ctx):
    from sigpyproc.readers import FilReader

    rng = np.random.default_rng([case["seed"], 12])
    k = int(rng.integers(4, 40))
    tsamp = 2.0 ** -int(rng.integers(8, 14))
    nints = int(rng.integers(1, 6))
    nch = int(rng.choice([1, 4, 8]))
    N = int(rng.integers(20, 60)) * k * nints
    phase0 = int(rng.integers(0, k))
    X = np.zeros((N, nch), dtype=np.uint8)
    X[phase0::k, :] = 9
    p = os.path.join(ctx.tmp, "c11p.fil")
    sigfile.write_fil(p, X, 8, fch1=1500.0, foff=-1.0, tsamp=tsamp)
    fil = FilReader(p)
    one = dict(case, geom={"k": k, "tsamp": tsamp, "nints": nints, "nchans": nch, "N": N, "phase0": phase0})
    ctx.evaluated(); ctx.count("pulse_train")
    nbands = int(rng.integers(1, nch + 1))
    try:
        with np.errstate(all="ignore"):
            fd = fil.fold(k * tsamp, 0.0, nbins=k, nints=nints, nbands=nbands, gulp=int(rng.choice([N, 97, N // 2])), quiet=True, description="v")
    except Exception as exc:  # noqa: BLE001
        ctx.violation(f"pulse-fold-raised:{type(exc).__name__}@{exc_site(exc)}", fmt_exc(exc), one)
        return
    # the same train folded into a number of bins that puts samples exactly ON bin edges (half-integer phases in exact arithmetic)
    for nb2 in sorted({max(2, k // 2), 2 * k, k + 1 if k % 2 else k + 2}):
        if (N * nch) // (nbands * nints * nb2) < 10:
            continue
        ctx.evaluated(); ctx.count("pulse_train_edge_bins")
        with np.errstate(all="ignore"):
            fd2 = fil.fold(k * tsamp, 0.0, nbins=nb2, nints=nints, nbands=nbands, gulp=N, quiet=True, description="v")
        s2, c2, a2 = oracle_cube(X.astype(np.float64), np.zeros(nch, dtype=np.int64), nb2, nints, nbands, np.float32(tsamp), np.float32(k * tsamp), np.float32(0.0), N)
        with np.errstate(all="ignore"):
            w2 = s2 / c2
        g2 = np.asarray(fd2.data)
        if not a2 and not (np.array_equal(np.isnan(g2), c2 == 0) and np.allclose(g2[c2 > 0], w2[c2 > 0], rtol=3e-7, atol=0)):
            ctx.violation("pulse-train-edge-samples", f"pulse train with P = {k} samples folded into {nb2} bins: cube differs from the phase model (samples exactly on bin edges must go to the bin that starts there)", dict(one, nbins=nb2))
            return
    cube = np.asarray(fd.data)
    occ = np.nan_to_num(cube) != 0
    per = occ.sum(axis=2)
    bins = {int(np.argmax(occ[i, j])) for i in range(occ.shape[0]) for j in range(occ.shape[1])}
    if not np.all(per == 1) or len(bins) != 1:
        ctx.violation("pulse-train-smeared", f"periodic pulse train (P = {k} samples) occupies {sorted(set(per.ravel().tolist()))} bins per profile, bins used {sorted(bins)[:6]}", one)
        return
    ctx.nontrivial_case(one)
