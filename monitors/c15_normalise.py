"""C15 - robust normalisation is finite, affine-equivariant and axis-consistent."""
from __future__ import annotations

import numpy as np

from vlib.core import exc_site, fmt_exc

PROPERTY = "C15"
LEVEL = "exploration"
CLAIM = {
    "text": "Exploration by runtime monitoring of relations between evaluations: for all 9 scale x 2 location methods (+'norm'), axis in {None,0,1}, 1-D and 2-D shapes with >= 8 elements per lane (incl. one-lane (1,n)/(n,1) shapes) and data on an exact grid (integers, affine maps exact in float32) the monitor checks scale(a*x+b) == |a|*scale(x), z(a*x+b) == sign(a)*z(x) where scale(x) != 0, per-axis result == the library's own 1-D estimator applied lane by lane (or to the flattened data), result shapes broadcastable against the input, and finiteness for constants, >50% ties and heavy outliers; also through FilterbankBlock.normalise and TimeSeries.normalise. Inputs are float32 or float64 and are compared with a private copy after every estimator call. Rounds 7-8 added: a smooth (positively correlated differences) data class, and lanes of 1025-2600 samples for every estimator (repeatability, equivariance under 2x+64, axis result vs lane result). Round 9 added: difference/order-statistic estimators on a pedestal of 2^22, incl. a lane whose spread is a few units. Round 10 added: 7-13 lanes of 640-1000 samples with lane-specific spreads for every estimator, both axes and memory orders.",
    "design_ref": "DESIGN.md section 3 (C15)",
    "note": "Trusted: exact affine maps on the integer grid (a in {+-1/64,+-1/4,+-1/2,+-2,+-3,+-10,+-64,+-100}, integer b). For doublemad the comparison is element-wise and excludes elements equal to the median (their side is undefined under a<0).",
    "technique": "runtime monitoring: metamorphic relations (affine equivariance, lane consistency) between executions of the real estimators",
}
ASSUMPTIONS = ["1e-2 <= |a| <= 1e2", ">= 8 elements per lane"]
RULE = ("random (scale method, loc method, shape class, axis, data class in {uniform ints, normal-rounded, >50% ties, constant, all-zero, mixed constant/ordinary lanes, heavy outliers}, a, b); "
        "non-trivial = non-constant data; distinct = distinct case record")
SCALES = ("std", "iqr", "mad", "doublemad", "diffcov", "biweight", "qn", "sn", "gapper")
LOCS = ("median", "mean")
AS = (1 / 64, 0.25, 0.5, 2.0, 3.0, 10.0, 64.0, 100.0)


def REQUIRED(tier):
    return [f"scale:{m}" for m in SCALES] + ["axis:None", "axis:0", "axis:1", "shape:one_lane", "shape:2d", "shape:1d", "class:constant", "class:zeros", "class:mixed_lanes", "class:ties",
                                             "class:outliers", "equivariance_checks", "zscore_checks", "lane_checks", "a<0", "via_block", "via_timeseries", "layout:F", "layout:T_view", "dtype:float64_input", "input_unchanged_checks", "class:constant_nonround", "zscore_norm_location_checks", "dtype:unsigned_input", "long_strided_lane_checks", "class:smooth", "mid_lane_checks", "many_lane_checks"]


def cases(tier, seed):
    n = 3000 if tier == "quick" else 40000
    for i in range(0, n, 10):
        yield {"n": 10, "seed": int(seed) * 100003 + i}
    for i in range(3 if tier == "quick" else 24):
        yield {"kind": "long_lanes", "seed": int(seed) * 100003 + i}
    for i, n in enumerate((2600, 2049, 1025) if tier == "quick" else (2600, 2049, 1025, 3001, 4097, 513)):
        yield {"kind": "mid_lanes", "n": n, "seed": int(seed) * 100003 + 500 + i}
    for i, shp in enumerate(((13, 640), (9, 800), (7, 1000), (10, 1000)) if tier == "quick" else ((13, 640), (9, 800), (7, 1000), (10, 1000), (33, 400), (5, 1200), (19, 500), (3, 1448))):
        yield {"kind": "many_lanes", "shape": list(shp), "seed": int(seed) * 100003 + 700 + i}


def _data(rng, shape, cls):
    if cls == "uniform":
        return rng.integers(-4000, 4000, size=shape).astype(np.float32)
    if cls == "normal":
        return np.round(rng.normal(size=shape) * 200).astype(np.float32)
    if cls == "ties":
        x = rng.integers(-50, 50, size=shape).astype(np.float32)
        m = rng.random(shape) < 0.6
        x[m] = 7.0
        return x
    if cls == "constant":
        return np.full(shape, float(rng.integers(-100, 100)), dtype=np.float32)
    if cls == "smooth":   # a slow baseline under small noise: successive differences are positively correlated
        n_ = int(np.prod(shape))
        t = np.arange(n_, dtype=np.float64).reshape(shape) if len(shape) == 1 else np.add.outer(np.arange(shape[0]) * 3.0, np.arange(shape[1], dtype=np.float64)) if shape[1] >= shape[0] else np.add.outer(np.arange(shape[0], dtype=np.float64), np.arange(shape[1]) * 3.0)
        return (np.round(300.0 * np.sin(t / 6.0)) + rng.integers(-2, 3, size=shape)).astype(np.float32)
    if cls == "constant_nonround":   # constants that are not small integers: sums of squares are inexact, a one-pass variance may go negative
        return np.full(shape, float(rng.choice([0.1, 3.3, -17.77, 1234.567, 0.37 * 7 + 11.3])), dtype=np.float32)
    if cls == "zeros":
        return np.zeros(shape, dtype=np.float32)
    if cls == "mixed_lanes":  # some lanes constant (incl. exactly zero, incl. the first lane), the others ordinary
        x = rng.integers(-400, 400, size=shape).astype(np.float32)
        if x.ndim == 2:
            for ax_len, setter in ((x.shape[0], lambda i, v: x.__setitem__((i, slice(None)), v)), (x.shape[1], lambda j, v: x.__setitem__((slice(None), j), v))):
                pass
            lane_axis = 0 if x.shape[0] <= x.shape[1] else 1   # lanes run along the longer axis
            nl = x.shape[lane_axis]
            for i in {0, int(rng.integers(0, nl))} if rng.random() < 0.7 else {int(rng.integers(0, nl))}:
                v = float(rng.choice([0.0, 5.0, -3.0]))
                if lane_axis == 0:
                    x[i, :] = v
                else:
                    x[:, i] = v
        return x
    x = np.round(rng.normal(size=shape) * 20).astype(np.float32)
    m = rng.random(shape) < 0.08
    x[m] = rng.choice([-4000.0, 4000.0, 3500.0], size=int(m.sum()))
    return x


def _lanes(x, axis):
    if axis is None:
        return [x.ravel()], ()
    if x.ndim == 1:
        return [x], ()
    if axis == 0:
        return [x[:, j] for j in range(x.shape[1])], (x.shape[1],)
    return [x[i, :] for i in range(x.shape[0])], (x.shape[0],)


def _long_lanes(case, ctx):
    """Lanes of 10^5..10^6 samples along the strided axis of a C-ordered block, on a level far above the scatter: single-precision running
    sums lose the location there.  The per-axis result must agree with the lane-by-lane 1-D estimator and not move under x -> x + b."""
    from sigpyproc.core import stats

    rng = np.random.default_rng([case["seed"], 151])
    n = int(rng.choice([1 << 17, 300000, 1 << 20]))
    level = float(rng.choice([1000.0, -2500.0]))
    x = (rng.normal(size=(n, 3)) + level).astype(np.float32)
    for loc in ("mean", "median"):
        for method in ("std", "iqr"):
            ctx.evaluated(); ctx.count("long_strided_lane_checks")
            one = dict(case, params={"n": n, "level": level, "loc": loc, "scale": method})
            z = np.asarray(stats.estimate_zscore(x, loc, method, 0).data, dtype=np.float64)
            if not np.all(np.isfinite(z)):
                ctx.violation(f"non-finite-zscore:long-lanes:{method}:{loc}", "z-scores of finite data contain NaN/inf", one); return
            for jl in range(3):
                z1 = np.asarray(stats.estimate_zscore(np.ascontiguousarray(x[:, jl]), loc, method).data, dtype=np.float64)
                if np.max(np.abs(z[:, jl] - z1)) > 2e-3:
                    ctx.violation(f"lane-inconsistent:zscore:long-strided-lanes:{loc}", f"axis-0 z-scores of a ({n},3) block on level {level} differ from the 1-D result of lane {jl} by {np.max(np.abs(z[:, jl] - z1)):.3g} sigma", one)
                    return
            zb = np.asarray(stats.estimate_zscore((x.astype(np.float64) + 512.0).astype(np.float32), loc, method, 0).data, dtype=np.float64)
            if np.max(np.abs(zb - z)) > 5e-3:
                ctx.violation(f"zscore-not-equivariant:long-strided-lanes:{loc}", f"z(x+512) differs from z(x) by {np.max(np.abs(zb - z)):.3g} sigma on ({n},3) lanes at level {level}", one)
                return
    ctx.nontrivial_case(case)


def _mid_lanes(case, ctx):
    """Lanes of a few thousand samples (beyond any 'small input' path): every scale estimator is a function of the lane - the same lane gives
    the same number twice, |a| times it after x -> a*x+b, and the per-axis result is the 1-D result of each lane."""
    from sigpyproc.core import stats

    rng = np.random.default_rng([case["seed"], 152])
    n = int(case["n"])
    x = np.round(rng.normal(size=(n, 2)) * 300).astype(np.float32)
    y = (2.0 * x.astype(np.float64) + 64.0).astype(np.float32)       # exact in single precision
    for method in SCALES:
        if method == "doublemad":
            continue      # reports one scale per sample (left/right of the median), judged in _one
        ctx.evaluated(); ctx.count("mid_lane_checks"); ctx.count(f"scale:{method}")
        one = dict(case, params={"n": n, "scale": method})
        with np.errstate(all="ignore"):
            s1 = float(np.asarray(stats.estimate_scale(np.ascontiguousarray(x[:, 0]), method)).ravel()[0])
            s1b = float(np.asarray(stats.estimate_scale(np.ascontiguousarray(x[:, 0]), method)).ravel()[0])
            s2 = float(np.asarray(stats.estimate_scale(np.ascontiguousarray(y[:, 0]), method)).ravel()[0])
            sa = np.asarray(stats.estimate_scale(x, method, 0), dtype=np.float64).ravel()
            sl = float(np.asarray(stats.estimate_scale(np.ascontiguousarray(x[:, 1]), method)).ravel()[0])
        if method in ("sn", "qn", "mad", "iqr", "gapper"):
            # the same lane on a pedestal of 2^22 (sums stay exact in single precision): estimators built on differences, order statistics
            # and medians do not see the pedestal
            with np.errstate(all="ignore"):
                s3 = float(np.asarray(stats.estimate_scale((x[:, 0].astype(np.float64) + 4194304.0).astype(np.float32), method)).ravel()[0])
                xs = np.round(x[:, 1].astype(np.float64) / 100.0)                  # the same for a lane whose spread (a few units) is tiny against the pedestal
                s4 = float(np.asarray(stats.estimate_scale(xs.astype(np.float32), method)).ravel()[0])
                s5 = float(np.asarray(stats.estimate_scale((xs + 4194304.0).astype(np.float32), method)).ravel()[0])
            ctx.count("pedestal_checks")
            if abs(s3 - s1) > 1e-6 * s1 or abs(s5 - s4) > 1e-6 * max(s4, 1e-30):
                ctx.violation(f"scale-not-translation-invariant:mid-lanes:{method}", f"n={n}: scale(x + 2^22) = {s3!r}, scale(x) = {s1!r}; small-spread lane {s5!r} vs {s4!r}", one); return
        if not (np.isfinite(s1) and s1 > 0):
            ctx.violation(f"scale-not-positive:mid-lanes:{method}", f"scale of {n} non-constant samples is {s1!r}", one); return
        if s1b != s1:
            ctx.violation(f"scale-not-a-function-of-the-lane:{method}", f"the same {n}-sample lane gave {s1!r} and then {s1b!r}", one); return
        if abs(s2 - 2.0 * s1) > 1e-5 * s1:
            ctx.violation(f"scale-not-equivariant:mid-lanes:{method}", f"n={n}: scale(2x+64) = {s2!r}, 2*scale(x) = {2 * s1!r}", one); return
        if sa.size != 2 or abs(sa[0] - s1) > 1e-5 * s1 or abs(sa[1] - sl) > 1e-5 * sl:
            ctx.violation(f"lane-inconsistent:scale:mid-lanes:{method}", f"n={n}: axis-0 scales {sa.tolist()} vs lane results {[s1, sl]}", one); return
    ctx.nontrivial_case(case)


def _many_lanes(case, ctx):
    """Seven to thirteen lanes of several hundred samples, each lane with its own spread (an estimator that works through the lanes in batches,
    tiles or chunks must still give lane k the number the 1-D estimator gives lane k), along either axis and in either memory order."""
    from sigpyproc.core import stats

    rng = np.random.default_rng([case["seed"], 153])
    nl, n = case["shape"]
    spread = rng.permutation(np.arange(1, nl + 1)) * 40.0
    x = np.round(rng.normal(size=(nl, n)) * spread[:, None]).astype(np.float32)
    for method in SCALES:
        if method == "doublemad":
            continue
        for axis, arr in ((1, x), (0, np.ascontiguousarray(x.T)), (0, x.T)):
            ctx.evaluated(); ctx.count("many_lane_checks"); ctx.count(f"scale:{method}")
            one = dict(case, params={"scale": method, "axis": axis, "contiguous": bool(arr.flags.c_contiguous)})
            try:
                with np.errstate(all="ignore"):
                    sa = np.asarray(stats.estimate_scale(arr, method, axis), dtype=np.float64).ravel()
                    sl = np.array([float(np.asarray(stats.estimate_scale(np.ascontiguousarray(x[k]), method)).ravel()[0]) for k in range(nl)])
            except Exception as exc:  # noqa: BLE001
                ctx.violation(f"scale-raised:many-lanes:{method}:{type(exc).__name__}@{exc_site(exc)}", f"estimate_scale({arr.shape}, {method}, axis={axis}) raised {fmt_exc(exc)}", one); break
            if sa.size != nl or np.any(np.abs(sa - sl) > 1e-5 * np.abs(sl)):
                bad = np.flatnonzero(np.abs(sa - sl) > 1e-5 * np.abs(sl))[:6].tolist() if sa.size == nl else "size"
                ctx.violation(f"lane-inconsistent:scale:many-lanes:{method}", f"{nl} lanes of {n}: per-axis scales differ from the 1-D estimator's at lanes {bad} ({sa[:nl][bad].tolist() if bad != 'size' else sa.size} vs {sl[bad].tolist() if bad != 'size' else nl})", one); break
    ctx.nontrivial_case(case)


def run_case(case, ctx):
    if case.get("kind") == "many_lanes":
        return _many_lanes(case, ctx)
    if case.get("kind") == "long_lanes":
        return _long_lanes(case, ctx)
    if case.get("kind") == "mid_lanes":
        return _mid_lanes(case, ctx)
    for j in ([case["only"]] if "only" in case else range(case["n"])):
        _one(case, j, ctx)


def _one(case, j, ctx):
    from sigpyproc.core import stats

    rng = np.random.default_rng([case["seed"], j, 15])
    method = SCALES[int(rng.integers(0, len(SCALES)))]
    loc = str(rng.choice(LOCS + ("norm",), p=[0.45, 0.45, 0.1]))
    shape_cls = str(rng.choice(["1d", "2d", "one_lane"], p=[0.3, 0.5, 0.2]))
    nlane = int(rng.integers(8, 40))
    if shape_cls == "1d":
        shape, axis = (nlane,), [None, 0][int(rng.integers(0, 2))]
    elif shape_cls == "2d":
        other = int(rng.integers(2, 7))
        axis = [None, 0, 1][int(rng.integers(0, 3))]
        shape = (nlane, other) if axis == 0 else (other, nlane)
        if axis is None:
            shape = (int(rng.integers(3, 7)), int(rng.integers(3, 9)))
    else:
        axis = int(rng.integers(0, 2))
        shape = (nlane, 1) if axis == 0 else (1, nlane)
    cls = str(rng.choice(["uniform", "normal", "ties", "constant", "outliers", "zeros", "mixed_lanes", "smooth"], p=[0.22, 0.18, 0.12, 0.08, 0.12, 0.05, 0.13, 0.10]))
    a = float(rng.choice(AS) * rng.choice([-1, 1]))
    b = float(rng.integers(-1000, 1000))
    if j % 12 == 5:
        # finiteness on constant lanes of 33..120 non-round values (only finiteness is judged: the affine maps are not exact here)
        cls = "constant_nonround"
        nl2 = int(rng.integers(33, 121))
        shape = (nl2,) if len(shape) == 1 else ((nl2, shape[1]) if axis == 0 else (shape[0], nl2) if axis == 1 else (shape[0], nl2))
    x = _data(rng, shape, cls)
    lay = "C"
    if x.ndim == 2:
        lay = str(rng.choice(["C", "F", "T_view"], p=[0.5, 0.25, 0.25]))
        if lay == "F":
            x = np.asfortranarray(x)
        elif lay == "T_view":
            x = np.ascontiguousarray(x.T).T      # same values and shape, transposed strides
        ctx.count(f"layout:{lay}")
    wide = bool(rng.random() < 0.3)
    if wide:   # double-precision input: the estimators may then work on the caller's own buffer rather than on a converted copy
        x = x.astype(np.float64)
        ctx.count("dtype:float64_input")
    y = (a * x.astype(np.float64) + b).astype(x.dtype)
    if lay == "F":
        y = np.asfortranarray(y)
    xkeep, ykeep = np.array(x, copy=True), np.array(y, copy=True)
    one = {"n": 1, "seed": case["seed"], "only": j, "params": {"scale": method, "loc": loc, "shape": list(shape), "axis": axis, "cls": cls, "a": a, "b": b, "layout": lay}}
    one["params"]["layout"] = lay
    one["params"]["dtype"] = str(x.dtype)
    ctx.evaluated()
    for k in (f"scale:{method}", f"axis:{axis}", f"shape:{shape_cls}", f"class:{cls}"):
        ctx.count(k)
    if a < 0:
        ctx.count("a<0")
    lab = f"{method}:axis={axis}:{shape_cls}"
    with np.errstate(all="ignore"):
        try:
            S = np.asarray(stats.estimate_scale(x, method, axis), dtype=np.float64)
            Sk = np.asarray(stats.estimate_scale(x, method, axis, keepdims=True), dtype=np.float64)
            Sy = np.asarray(stats.estimate_scale(y, method, axis), dtype=np.float64)
        except Exception as exc:  # noqa: BLE001
            ctx.violation(f"scale-raised:{lab}:{type(exc).__name__}@{exc_site(exc)}", f"estimate_scale({shape}, {method}, axis={axis}) raised {fmt_exc(exc)}", one)
            return
        ctx.count("input_unchanged_checks")
        if not (np.array_equal(x, xkeep) and np.array_equal(y, ykeep)):
            ctx.violation(f"input-modified:estimate_scale:{method}", f"estimate_scale({shape}, {method}, axis={axis}) on {x.dtype} data changed the caller's array in place", one)
            return
        if cls in ("uniform", "ties", "outliers", "normal") and j % 4 == 1:
            # the same non-negative values held as unsigned integers (raw 8/16-bit samples): the estimate must not depend on the container type
            xu = (x.astype(np.float64) - float(np.min(x))).astype(np.uint16 if float(np.max(x) - np.min(x)) > 255 else np.uint8)
            ctx.count("dtype:unsigned_input")
            try:
                Su = np.asarray(stats.estimate_scale(xu, method, axis), dtype=np.float64)
                Sf = np.asarray(stats.estimate_scale(xu.astype(np.float32), method, axis), dtype=np.float64)
                if Su.shape != Sf.shape or not np.allclose(Su, Sf, rtol=1e-6, atol=1e-9):
                    ctx.violation(f"scale-depends-on-integer-container:{method}", f"estimate_scale of {xu.dtype} data = {np.ravel(Su)[:3].tolist()}, of the same values as float32 = {np.ravel(Sf)[:3].tolist()} ({shape}, axis={axis})", one)
                    return
            except Exception as exc:  # noqa: BLE001
                ctx.violation(f"scale-raised:{lab}:unsigned:{type(exc).__name__}@{exc_site(exc)}", fmt_exc(exc), one)
                return
        lanes, lshape = _lanes(x, axis)
        # ---- (iii)/(iv) lane consistency and shapes
        ctx.count("lane_checks")
        if method == "doublemad":
            ref = np.empty(x.shape, dtype=np.float64)
            if axis is None or x.ndim == 1:
                ref = np.asarray(stats.estimate_scale(x.ravel(), method), dtype=np.float64).reshape(x.shape)
            elif axis == 0:
                for jj in range(x.shape[1]):
                    ref[:, jj] = stats.estimate_scale(x[:, jj], method)
            else:
                for ii in range(x.shape[0]):
                    ref[ii, :] = stats.estimate_scale(x[ii, :], method)
            if S.shape != x.shape:
                ctx.violation(f"shape:{lab}", f"doublemad scale shape {S.shape} for data {x.shape}", one)
                return
        else:
            ref = np.array([float(stats.estimate_scale(l, method)) for l in lanes], dtype=np.float64).reshape(lshape)
            if S.shape != ref.shape and not (S.size == 1 and ref.size == 1):  # a single lane may come back as a scalar (it broadcasts)
                ctx.violation(f"shape:{lab}", f"estimate_scale shape {S.shape}, expected {ref.shape} for data {x.shape} axis={axis}", one)
                return
            S = S.reshape(ref.shape)
            Sy = Sy.reshape(ref.shape) if Sy.size == ref.size else Sy
            try:
                np.broadcast_shapes(Sk.shape, x.shape)
                okb = Sk.ndim == x.ndim and np.broadcast_shapes(Sk.shape, x.shape) == x.shape
            except ValueError:
                okb = False
            if not okb:
                ctx.violation(f"keepdims-shape:{lab}", f"keepdims result shape {Sk.shape} does not broadcast against {x.shape}", one)
                return
        if not np.allclose(S, ref, rtol=1e-9, atol=1e-12, equal_nan=True):
            ctx.violation(f"lane-inconsistent:{lab}", f"per-axis scale {np.ravel(S)[:4].tolist()} != 1-D estimator per lane {np.ravel(ref)[:4].tolist()} (shape {shape}, axis={axis})", one)
            return
        # ---- (v) finiteness
        if not np.all(np.isfinite(S)):
            ctx.violation(f"non-finite-scale:{lab}:{cls}", f"scale = {np.ravel(S)[:4].tolist()}", one)
            return
        if cls == "constant_nonround":
            ctx.count("class:constant_nonround")
            for lm in LOCS:
                zz = np.asarray(stats.estimate_zscore(x, lm, method, axis).data, dtype=np.float64)
                ctx.count("zscore_checks")
                # a constant lane carries no information: its z-scores are finite and negligible (scale falls back to 1), never NaN or huge
                if not np.all(np.isfinite(zz)) or np.max(np.abs(zz)) > 1e-3 * max(1.0, float(np.max(np.abs(x)))):
                    ctx.violation(f"constant-lane-zscore:{method}:{lm}", f"z-scores of a constant lane of value {float(np.ravel(x)[0])!r} ({shape}, axis={axis}): min {np.nanmin(zz) if np.any(np.isfinite(zz)) else 'nan'} max {np.nanmax(zz) if np.any(np.isfinite(zz)) else 'nan'}", one)
                    return
            return
        # ---- (i) equivariance
        ctx.count("equivariance_checks")
        ymax = max(1.0, float(np.max(np.abs(y))))
        if method == "doublemad":
            med = np.median(x.astype(np.float64), axis=axis, keepdims=True)
            sel = x.astype(np.float64) != med
            okq = np.allclose(Sy[sel], abs(a) * S[sel], rtol=1e-9, atol=1e-9 * ymax)
        else:
            # absolute floor: a scale that is exactly 0 for x may come out as rounding noise (1e-10 of the data level) for a*x+b
            okq = Sy.shape == S.shape and np.allclose(Sy, abs(a) * S, rtol=1e-9, atol=1e-9 * ymax)
        if not okq:
            ctx.violation(f"not-equivariant:{lab}:{cls}", f"scale(a*x+b) = {np.ravel(Sy)[:3].tolist()} but |a|*scale(x) = {(abs(a) * np.ravel(S))[:3].tolist()} (a={a}, b={b})", one)
            return
        # ---- (ii) z-scores
        ctx.count("zscore_checks")
        zaxis = axis
        try:
            zx = stats.estimate_zscore(x, loc, method, zaxis)
            zy = stats.estimate_zscore(y, loc, method, zaxis)
        except Exception as exc:  # noqa: BLE001
            ctx.violation(f"zscore-raised:{lab}:{type(exc).__name__}@{exc_site(exc)}", f"estimate_zscore({shape}, {loc}, {method}, axis={axis}) raised {fmt_exc(exc)}", one)
            return
        if not (np.array_equal(x, xkeep) and np.array_equal(y, ykeep)):
            ctx.violation(f"input-modified:estimate_zscore:{method}:{loc}", f"estimate_zscore({shape}, {loc}, {method}, axis={axis}) on {x.dtype} data changed the caller's array in place", one)
            return
        zxd, zyd = np.asarray(zx.data, dtype=np.float64), np.asarray(zy.data, dtype=np.float64)
        if zxd.shape != x.shape:
            ctx.violation(f"zscore-shape:{lab}", f"z-scores shape {zxd.shape} for data {x.shape}", one)
            return
        if not (np.all(np.isfinite(zxd)) and np.all(np.isfinite(zyd))):
            ctx.violation(f"non-finite-zscore:{lab}:{cls}", "z-scores of finite data contain NaN/inf", one)
            return
        if loc == "norm":
            # no centring: the z-scores are the data divided by the scale the library reports for the same data
            ctx.count("zscore_norm_location_checks")
            Sfull = np.broadcast_to(Sk if method != "doublemad" else S, x.shape)
            nzn = Sfull > 1e-7 * 64
            wantn = x.astype(np.float64) / np.where(nzn, Sfull, 1.0)
            toln = 1e-5 * np.maximum(1.0, np.abs(wantn))
            if np.any(np.abs(zxd - wantn)[nzn] > toln[nzn]):
                i = int(np.argmax(np.where(nzn, np.abs(zxd - wantn) - toln, -1)))
                ctx.violation(f"zscore-norm-location:{lab}:{cls}", f"loc_method='norm': z flat[{i}] = {zxd.ravel()[i]!r} but x/scale(x) = {wantn.ravel()[i]!r} (scale {np.ravel(Sfull)[i]!r})", one)
                return
        if loc != "norm":
            Sfull = np.broadcast_to(Sk if method != "doublemad" else S, x.shape)
            nz = Sfull > 1e-7 * 64  # scale(x) != 0 and not inside the zero guard for either x or a*x
            if method == "doublemad":
                nz = nz & (x.astype(np.float64) != np.median(x.astype(np.float64), axis=axis, keepdims=True))
            # float32 subtraction of the location: a few ulp32 of the largest |a*x+b| divided by the scale of a*x+b
            tolz = 1e-5 * np.maximum(1.0, np.abs(zxd)) + 4 * (abs(b) + 4000 * abs(a) + 4000) * 2.0 ** -23 / np.maximum(Sfull * min(abs(a), 1.0), 1e-30)
            if np.any(np.abs(zyd - np.sign(a) * zxd)[nz] > tolz[nz]):
                i = int(np.argmax(np.where(nz, np.abs(zyd - np.sign(a) * zxd) - tolz, -1)))
                ctx.violation(f"zscore-not-equivariant:{lab}:{loc}:{cls}", f"z(a*x+b) flat[{i}] = {zyd.ravel()[i]!r}, sign(a)*z(x) = {(np.sign(a) * zxd).ravel()[i]!r} (a={a}, b={b})", one)
                return
    if cls not in ("constant", "zeros"):
        ctx.nontrivial_case(one)
    # ---- through the containers
    if x.ndim == 2 and method in ("std", "iqr", "mad") and loc != "norm" and axis is not None:
        from sigpyproc.block import FilterbankBlock
        from sigpyproc.header import Header

        ctx.count("via_block")
        h = Header(filename="x", data_type="filterbank", nchans=x.shape[0], foff=-1.0, fch1=1400.0, nbits=32, tsamp=1e-3, tstart=58000.0, nsamples=x.shape[1])
        try:
            nb = FilterbankBlock(x, h).normalise(loc, method, axis=axis)
            if not np.allclose(nb.data, zx.data, equal_nan=True) or not np.all(np.isfinite(nb.data)):
                ctx.violation(f"block-normalise:{lab}", "FilterbankBlock.normalise differs from estimate_zscore", one)
        except Exception as exc:  # noqa: BLE001
            ctx.violation(f"block-normalise-raised:{lab}:{type(exc).__name__}@{exc_site(exc)}", fmt_exc(exc), one)
    if x.ndim == 1 and method in ("std", "iqr", "mad") and loc != "norm":
        from sigpyproc.header import Header
        from sigpyproc.timeseries import TimeSeries

        ctx.count("via_timeseries")
        h = Header(filename="x", data_type="time series", nchans=1, foff=-1.0, fch1=1400.0, nbits=32, tsamp=1e-3, tstart=58000.0, nsamples=x.size)
        nt = TimeSeries(x, h).normalise(loc, method)
        z0 = stats.estimate_zscore(x, loc, method).data
        if not np.allclose(nt.data, z0) or not np.all(np.isfinite(nt.data)):
            ctx.violation(f"timeseries-normalise:{method}", "TimeSeries.normalise differs from estimate_zscore", one)
    if j == 0:
        ctx.sample({"params": one["params"], "scale": np.ravel(S)[:3].tolist(), "scale_of_mapped": np.ravel(Sy)[:3].tolist()})
