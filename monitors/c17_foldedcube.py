"""C17 - re-tuning a folded cube depends only on the target DM/period, not the history."""
from __future__ import annotations

import itertools

import numpy as np

from vlib import refmodels
from vlib.core import exc_site, fmt_exc

PROPERTY = "C17"
LEVEL = "exploration"
CLAIM = {
    "text": "Exploration by runtime monitoring over histories with an invariant hook: every sequence of update_dm/update_period calls up to length 4 (quick) / 5 (thorough) over an alphabet of 4 DM and 4 period targets, plus seeded random histories of length 50, is run on cubes of shape (4,4,16), (3,1,8), (1,5,32) filled with distinct values; a spy checks after every call that each profile is a rotation of the original (so the multiset is preserved), that dm/period report the last request, and that the cube equals a fresh copy rotated once by the shifts the documented drift formulas give for the current targets; repeating an update must be a no-op and returning to the folding values must restore the cube bit-for-bit. A second, dyadic geometry (P0 = 1 s, 64 s, 32 bins; targets P0(1+k/2048)) makes half-bin period drifts exact, with all histories of length <= 3 over 8 targets on two shapes. Rounds 7-8 added: cubes with empty (NaN) phase bins, ascending bands, and DM 0 as a target. Round 9 added: 50-bin cubes with shifts beyond 2^15 bins, and histories run with the library's logger at DEBUG.",
    "design_ref": "DESIGN.md section 3 (C17)",
    "note": "Trusted: my float64 implementation of the drift formulas (DM drift in bins of period/nbins relative to the first sub-band; linear period drift round(i*dbins/nsubints)). Where rounding sits within 1e-3 of a half bin either neighbouring shift is accepted (counted). DM drifts are expressed in bins of the folding period.",
    "technique": "runtime monitoring: operation-history enumeration with an invariant hook after every call, against a rotate-once reference model",
}
ASSUMPTIONS = ["profiles hold distinct values so the applied rotation is uniquely recoverable", "lattice targets: periods within 1e-3 of the folding period, |DM - DM0| <= 40; random histories: |DM - DM0| <= 3000, periods within 5e-3"]
RULE = ("histories: all op sequences of length <= L (quick 4, thorough 5) over {update_dm(dm0), update_dm(dm0+5), update_dm(dm0-5), update_dm(dm0+40), update_period(P0), "
        "update_period(P0(1+1e-4)), update_period(P0(1-1e-4)), update_period(P0(1+1e-3))} on three cube shapes, + random histories of length 50 with random targets. "
        "Non-trivial = the history contains >= 2 calls with different targets; distinct = distinct (shape, op list)")
SHAPES = ((4, 4, 16), (3, 1, 8), (1, 5, 32))
DM0, P0 = 30.0, 0.1
# observation geometry of the current case: the default one, or a dyadic one (period 1 s, 64 s of data, 32 bins) in which period
# drifts of whole and exactly half bins occur, so that round-half-even decisions are exercised with exact arithmetic
_cfg = {"P0": P0, "tsamp": 1e-3, "nsamples": 100000, "nchans": 64, "foff": -1.0}
DYADIC = {"P0": 1.0, "tsamp": 2.0 ** -10, "nsamples": 65536}
# a 5 ms pulsar folded for 600 s into 64 bins: a change of the period by one part in a million drifts the last sub-integration by 7.7 bins
PPM = {"P0": 0.005, "tsamp": 1.0e-4, "nsamples": 6000000}
PPM_SHAPES = ((4, 3, 64), (2, 1, 64), (3, 2, 50))     # 50 bins: absolute shifts of tens of thousands of bins with a bin count that does not divide 2^16
# an over-resolved fold: 64 bins on a 16 ms period sampled every 0.5 ms (a phase bin is narrower than a sample; Filterbank.fold only warns)
OVERRES = {"P0": 0.016, "tsamp": 5.0e-4, "nsamples": 200000}
OVERRES_SHAPES = ((2, 4, 64), (3, 2, 64))
DYADIC_SHAPES = ((4, 1, 32), (8, 2, 32))


def REQUIRED(tier):
    return ["histories", "hook_checks", "rotation_checks", "law:repeat_noop", "law:return_restores", "law:history_independence", "ops:update_dm", "ops:update_period", "shape:single_subband", "shape:single_subint", "layout:F", "layout:transposed_view", "layout:strided_view", "dyadic_histories", "exact_half_bin_states", "ops:centre_copy_retuned", "nchans:64", "nchans:128", "ppm_histories", "overresolved_histories", "histories:warnings_as_errors", "cubes:with_empty_phase_bins", "band:ascending", "ops:update_dm_to_zero", "histories:debug_logging"]


def EXHAUSTIVE(tier):
    return True


def alphabet():
    # P0*(1+1e-5) implies less than half a bin of total drift: a target that rotates nothing but is not the folding period
    return [("dm", DM0), ("dm", DM0 + 5), ("dm", DM0 - 5), ("dm", DM0 + 40), ("p", P0), ("p", P0 * (1 + 1e-4)), ("p", P0 * (1 + 1e-5)), ("p", P0 * (1 + 1e-3))]


def cases(tier, seed):
    L = 4 if tier == "quick" else 5
    A = alphabet()
    for si in range(len(SHAPES)):
        for first in range(len(A)):
            for second in range(len(A)):
                yield {"kind": "lattice", "shape": si, "L": L, "prefix": [first, second]}
    rng = np.random.default_rng([seed, 1717])
    for k in range(100 if tier == "quick" else 2000):
        yield {"kind": "random", "shape": int(rng.integers(0, 3)), "hseed": int(seed) * 100003 + k, "len": 50, "layout": LAYOUTS[k % 4], "nchans": [64, 128, 32][k % 3], "nan_bins": k % 5 == 1, "ascending": k % 7 == 3, "debug_logging": k % 6 == 2}
    for si in range(len(PPM_SHAPES)):
        for first in range(11):
            yield {"kind": "ppm", "shape": si, "first": first}
    for si in range(len(OVERRES_SHAPES)):
        for first in range(8):
            yield {"kind": "overres", "shape": si, "first": first}
    for si in range(len(DYADIC_SHAPES)):
        for first in range(9):
            yield {"kind": "dyadic", "shape": si, "first": first}
    for si in range(len(SHAPES)):      # the length-2 lattice again on non-contiguous cubes
        for lay in LAYOUTS[1:]:
            for first in range(len(A)):
                for second in range(len(A)):
                    yield {"kind": "lattice", "shape": si, "L": 2, "prefix": [first, second], "layout": lay}


def _hdr():
    from sigpyproc.header import Header

    return Header(filename="x.fil", data_type="filterbank", nchans=_cfg["nchans"], foff=_cfg.get("foff", -1.0), fch1=400.0, nbits=8, tsamp=_cfg["tsamp"], tstart=58000.0, nsamples=_cfg["nsamples"])


def _eq(a, b):
    return np.array_equal(a, b, equal_nan=True)


_nan = {"on": False}   # cubes with empty phase bins (NaN where a bin received no samples), as folding short sub-integrations produces them

LAYOUTS = ("C", "F", "transposed_view", "strided_view")
_layout = {"cur": "C"}


def _cube(shape):
    """Cube filled with distinct values, in the memory layout selected for the current case (updates must act on the
    cube the caller holds whatever its strides)."""
    from sigpyproc.foldedcube import FoldedData

    nint, nband, nbins = shape
    base = (np.arange(nint * nband * nbins, dtype=np.float32).reshape(shape) * 3 + 1)
    if _nan["on"]:
        for i in range(nint):
            for j in range(nband):
                base[i, j, (i + 2 * j) % nbins] = np.nan          # one empty bin per profile, in bin 0 for some of them
                if (i + j) % 3 == 0:
                    base[i, j, (i + 2 * j + 1 + nbins // 2) % nbins] = np.nan
        if nint * nband > 2:
            base[nint - 1, nband - 1, :] = np.nan                   # and one profile that received no samples at all
    lay = _layout["cur"]
    src = base.copy()   # never alias the oracle's copy (numpy returns views when a layout conversion is a no-op)
    if lay == "C":
        arr = src
    elif lay == "F":
        arr = np.array(src, order="F", copy=True)
    elif lay == "transposed_view":
        arr = np.array(src.transpose(1, 0, 2), order="C", copy=True).transpose(1, 0, 2)
    else:
        big = np.zeros((nint * 2, nband, nbins), dtype=np.float32)
        big[::2] = base
        arr = big[::2]
    return FoldedData(arr, _hdr(), _cfg["P0"], DM0), base


def _acceptable(v):
    r = {int(np.round(v))}
    if abs(abs(v - np.floor(v)) - 0.5) < 1e-3 * (1 + abs(v)):
        r |= {int(np.floor(v)), int(np.ceil(v))}
    return r


def ref_shifts(shape, dm, period, visited_periods):
    """Acceptable DM shifts per sub-band and period shifts per sub-integration for the targets (dm, period)."""
    nint, nband, nbins = shape
    h = _hdr()
    chan_width = h.foff * h.nchans / nband
    freqs = np.arange(nband, dtype=np.float64) * chan_width + h.fch1
    A = []
    for j in range(nband):
        acc = set()
        for px in {_cfg["P0"]}:  # bin width of the folding period: the shift is a function of the targets only
            v = refmodels.dm_delay_exact(np.float32(freqs[j]), dm - DM0, px / nbins, h.fch1)
            acc |= _acceptable(float(v))
        A.append(acc)
    tobs = h.tsamp * h.nsamples
    dbins = (period / _cfg["P0"] - 1) * tobs * nbins / _cfg["P0"]
    B = [_acceptable(i * dbins / nint) for i in range(nint)]
    return A, B


def check_state(ctx, fd, base, shape, dm, period, visited, rec, step):
    """Invariant hook: called after every update. Returns False on violation."""
    nint, nband, nbins = shape
    ctx.count("hook_checks")
    cur = np.asarray(fd.data)
    if fd.dm != dm or fd.period != period:
        ctx.violation("reported-values", f"step {step}: cube reports dm={fd.dm!r} period={fd.period!r}, last requested dm={dm!r} period={period!r}", rec)
        return False
    A, B = ref_shifts(shape, dm, period, visited)
    tobs_ = _hdr().tsamp * _hdr().nsamples
    db_ = (period / _cfg["P0"] - 1) * tobs_ * nbins / _cfg["P0"]
    if any((i * db_ / nint) % 1 == 0.5 for i in range(nint)):
        ctx.count("exact_half_bin_states")
    amb = any(len(a) > 1 for a in A) or any(len(b) > 1 for b in B)
    if amb:
        ctx.count("ambiguous_rounding_states")
    for i in range(nint):
        for j in range(nband):
            ctx.count("rotation_checks")
            prof, orig = cur[i, j], base[i, j]
            fin = np.flatnonzero(np.isfinite(prof))
            if fin.size == 0:
                if np.all(np.isnan(orig)):
                    continue                     # a profile without samples: every rotation of it is the same profile
                ctx.violation("not-a-rotation", f"step {step}: profile (subint {i}, subband {j}) lost all its values", rec)
                return False
            i0 = int(fin[0])                     # the values other than NaN are distinct: the first finite bin identifies the rotation
            k = (int(np.flatnonzero(orig == prof[i0])[0]) - i0) % nbins if np.any(orig == prof[i0]) else None
            if k is None or not _eq(np.roll(orig, -k), prof):
                ctx.violation("not-a-rotation", f"step {step}: profile (subint {i}, subband {j}) is not a rotation of the original profile", rec)
                return False
            ok = any((a + b - k) % nbins == 0 for a in A[j] for b in B[i])
            if not ok:
                kind = "dm" if all(((a + next(iter(B[0]))) - k) % nbins for a in A[j]) and i == 0 else "period/combined"
                ctx.violation(f"wrong-rotation[{'first-update' if step == 0 else 'later-update'}]",
                              f"step {step}: profile (subint {i}, subband {j}) is rotated by {k} bins; targets dm={dm}, period={period!r} imply {sorted(A[j])} (DM) + {sorted(B[i])} (period) mod {nbins}", rec,
                              history_step=step)
                return False
    return True


def run_history(ctx, shape, ops, rec):
    import logging

    lg = logging.getLogger("sigpyproc.foldedcube")
    lvl0 = lg.level
    if rec.get("debug_logging"):
        lg.setLevel(logging.DEBUG)      # what a user sees must not depend on how chatty the library is asked to be
        ctx.count("histories:debug_logging")
    try:
        return _run_history(ctx, shape, ops, rec)
    finally:
        lg.setLevel(lvl0)


def _run_history(ctx, shape, ops, rec):
    _cfg["foff"] = 1.0 if rec.get("ascending") else -1.0      # a band stored in ascending frequency order (e.g. after invert_freq)
    if rec.get("ascending"):
        ctx.count("band:ascending")
    _nan["on"] = bool(rec.get("nan_bins"))
    if _nan["on"]:
        ctx.count("cubes:with_empty_phase_bins")
    fd, base = _cube(shape)
    P0 = _cfg["P0"]
    dm, period = DM0, P0
    visited = [P0]
    ctx.evaluated(); ctx.count("histories")
    targets = set()
    for step, (kind, val) in enumerate(ops):
        before = np.asarray(fd.data).copy()
        if kind == "c":
            # a centred copy is taken and re-tuned to the folding values: that is another cube, this one must not notice
            try:
                with np.errstate(all="ignore"):
                    der = fd.centre()
                    der.update_dm(DM0)
                    der.update_period(P0)
                    der.update_dm(DM0 + 5)
                ctx.count("ops:centre_copy_retuned")
            except Exception:  # noqa: BLE001
                ctx.count("ops:centre_unavailable")   # profiles shorter than the matched-filter templates
            if not _eq(before, np.asarray(fd.data)):
                ctx.violation("cube-changed-by-derived-copy", f"step {step}: re-tuning the cube returned by centre() changed the original cube", rec)
                return False
            if not check_state(ctx, fd, base, shape, dm, period, visited, rec, step):
                return False
            continue
        import warnings as _w

        strict = bool(rec.get("strict_warnings"))
        try:
            with _w.catch_warnings():
                if strict:
                    _w.simplefilter("error")     # a caller running with warnings as errors: an update that warns is refused as a whole
                if kind == "dm":
                    fd.update_dm(val)
                else:
                    fd.update_period(val)
        except Warning:
            ctx.count("ops:update_refused_under_strict_warnings")
            if not _eq(before, np.asarray(fd.data)) or fd.dm != dm or fd.period != period:
                ctx.violation("refused-update-left-traces", f"step {step}: update_{kind}({val!r}) raised a warning-as-error but the cube / reported values changed", rec)
                return False
            if not check_state(ctx, fd, base, shape, dm, period, visited, rec, step):
                return False
            continue
        except Exception as exc:  # noqa: BLE001
            ctx.violation(f"update-raised:{kind}:{type(exc).__name__}@{exc_site(exc)}", f"step {step}: update_{kind}({val!r}) raised {fmt_exc(exc)}", rec)
            return False
        try:
            if kind == "dm":
                ctx.count("ops:update_dm")
                same = val == dm
                dm = val
            else:
                ctx.count("ops:update_period")
                same = val == period
                period = val
                visited.append(val)
        except Exception as exc:  # noqa: BLE001
            ctx.violation(f"update-raised:{kind}:{type(exc).__name__}@{exc_site(exc)}", f"step {step}: update_{kind}({val!r}) raised {fmt_exc(exc)}", rec)
            return False
        targets.add((kind, val))
        if same:
            ctx.count("law:repeat_noop")
            if not _eq(before, np.asarray(fd.data)):
                ctx.violation(f"repeat-not-noop:{kind}", f"step {step}: repeating update_{kind}({val!r}) changed the cube", rec)
                return False
        if not check_state(ctx, fd, base, shape, dm, period, visited, rec, step):
            return False
        if dm == DM0 and period == P0:
            ctx.count("law:return_restores")
            if not _eq(np.asarray(fd.data), base):
                ctx.violation("return-does-not-restore", f"step {step}: back at the folding values but the cube differs from the original", rec)
                return False
    # history independence, formula-free: a fresh cube taken straight to the final targets (either order) must equal this one
    for order in (("dm", "p"), ("p", "dm")):
        fresh, _ = _cube(shape)
        for kind in order:
            if kind == "dm":
                fresh.update_dm(dm)
            else:
                fresh.update_period(period)
        ctx.count("law:history_independence")
        if not _eq(np.asarray(fresh.data), np.asarray(fd.data)):
            nd = int(np.sum(np.any(np.asarray(fresh.data) != np.asarray(fd.data), axis=2)))
            ctx.violation("history-dependence", f"cube after the history differs in {nd} profiles from a fresh cube taken directly to dm={dm}, period={period!r} (order {order})", rec)
            return False
    if len(targets) >= 2:
        ctx.nontrivial_case(rec)
    return True


def dyadic_alphabet():
    P = DYADIC["P0"]
    return [("p", P), ("p", P * (1 + 1 / 2048)), ("p", P * (1 + 2 / 2048)), ("p", P * (1 + 3 / 2048)), ("p", P * (1 + 5 / 2048)), ("p", P * (1 - 2 / 2048)), ("dm", DM0), ("dm", DM0 + 5), ("c", 0.0)]


def ppm_alphabet():
    P = PPM["P0"]
    return [("p", P), ("p", P * (1 + 1e-6)), ("p", P * (1 + 2e-6)), ("p", P * (1 - 3e-6)), ("p", P * (1 + 8e-6)), ("dm", DM0), ("dm", DM0 + 0.004), ("dm", DM0 + 0.25), ("dm", DM0 + 0.5),
            ("dm", DM0 + 400.0), ("p", P * (1 + 1.2e-2))]


def overres_alphabet():
    P = OVERRES["P0"]
    return [("dm", DM0), ("dm", DM0 + 5), ("dm", DM0 - 5), ("dm", DM0 + 40), ("dm", DM0 + 0.5), ("p", P), ("p", P * (1 + 1e-4)), ("p", P * (1 - 3e-4))]


def run_case(case, ctx):
    if case["kind"] == "overres" or case.get("overres"):
        _cfg.update(dict(OVERRES, nchans=64))
        _layout["cur"] = "C"
        shape = OVERRES_SHAPES[case["shape"]]
        if case["kind"] == "history":
            run_history(ctx, shape, [tuple(o) for o in case["ops"]], case)
            return
        A = overres_alphabet()
        for ln in range(0, 3):
            for tail in itertools.product(range(len(A)), repeat=ln):
                ops = [A[case["first"]]] + [A[i] for i in tail]
                ctx.count("overresolved_histories")
                rec = {"kind": "history", "overres": True, "shape": case["shape"], "ops": [list(o) for o in ops]}
                run_history(ctx, shape, ops, rec)
        return
    if case["kind"] == "ppm" or case.get("ppm"):
        _cfg.update(dict(PPM, nchans=64))
        _layout["cur"] = "C"
        shape = PPM_SHAPES[case["shape"]]
        if case["kind"] == "history":
            run_history(ctx, shape, [tuple(o) for o in case["ops"]], case)
            return
        A = ppm_alphabet()
        for ln in range(0, 3):
            for tail in itertools.product(range(len(A)), repeat=ln):
                ops = [A[case["first"]]] + [A[i] for i in tail]
                ctx.count("ppm_histories")
                rec = {"kind": "history", "ppm": True, "shape": case["shape"], "ops": [list(o) for o in ops]}
                run_history(ctx, shape, ops, rec)
        return
    # cubes of two observations share fch1/foff/number of sub-bands but not the channel count (a full band and its upper half)
    _cfg.update({"P0": P0, "tsamp": 1e-3, "nsamples": 100000, "nchans": int(case.get("nchans", 64))})
    ctx.count(f"nchans:{_cfg['nchans']}")
    if case["kind"] == "dyadic" or case.get("dyadic"):
        _cfg.update(DYADIC)
        _layout["cur"] = "C"
        shape = DYADIC_SHAPES[case["shape"]]
        if case["kind"] == "history":
            run_history(ctx, shape, [tuple(o) for o in case["ops"]], case)
            return
        A = dyadic_alphabet()
        for ln in range(0, 3):
            for tail in itertools.product(range(len(A)), repeat=ln):
                ops = [A[case["first"]]] + [A[i] for i in tail]
                ctx.count("dyadic_histories")
                rec = {"kind": "history", "dyadic": True, "shape": case["shape"], "ops": [list(o) for o in ops]}
                run_history(ctx, shape, ops, rec)
        return
    _layout["cur"] = case.get("layout", "C")
    ctx.count(f"layout:{_layout['cur']}")
    shape = SHAPES[case["shape"]]
    if shape[1] == 1:
        ctx.count("shape:single_subband")
    if shape[0] == 1:
        ctx.count("shape:single_subint")
    A = alphabet()
    if case["kind"] == "history":
        run_history(ctx, shape, [tuple(o) for o in case["ops"]], case)
        return
    if case["kind"] == "lattice":
        L = case["L"]
        pre = [A[i] for i in case["prefix"]]
        for ln in range(0, L - 1):
            for tail in itertools.product(range(len(A)), repeat=ln):
                ops = pre + [A[i] for i in tail]
                if ln == 0 and case["prefix"][1] != 0:
                    pass
                rec = {"kind": "history", "shape": case["shape"], "ops": [list(o) for o in ops], "layout": _layout["cur"]}
                run_history(ctx, shape, ops, rec)
        # histories of length 1 are covered when the two prefix ops are equal targets (repeat law)
        if case["prefix"][1] == 0:
            rec = {"kind": "history", "shape": case["shape"], "ops": [list(pre[0])], "layout": _layout["cur"]}
            run_history(ctx, shape, pre[:1], rec)
        ctx.sample({"shape": list(shape), "prefix": [list(p) for p in pre], "depth_bound": L})
        return
    rng = np.random.default_rng([case["hseed"], 5])
    ops = []
    for _ in range(case["len"]):
        if rng.random() < 0.08:
            ops.append(("c", 0.0))
        elif rng.random() < 0.04:
            ops.append(("dm", 0.0))          # the zero-DM check: a target like any other
            ctx.count("ops:update_dm_to_zero")
        elif rng.random() < 0.25 and ops and any(o[0] == "dm" for o in ops):
            # a small step from the DM installed last: the outer sub-band keeps its rounded shift while inner ones move by a bin
            last = [o[1] for o in ops if o[0] == "dm"][-1]
            ops.append(("dm", float(last + rng.choice([0.25, -0.25, 0.5, -0.1, 0.05, 1.0]))))
        elif rng.random() < 0.5:
            ops.append(("dm", float(rng.choice([DM0, DM0 + float(rng.integers(-40, 41)), DM0 + float(rng.uniform(-40, 40)), DM0 + float(rng.uniform(-3000, 3000))]))))
        else:
            ops.append(("p", float(P0 * (1 + rng.choice([0.0, float(rng.uniform(-1e-3, 1e-3)), 1e-4, -1e-4, float(rng.uniform(-2e-5, 2e-5)), float(rng.uniform(-5e-3, 5e-3))])))))
    rec = {"kind": "history", "shape": case["shape"], "ops": [list(o) for o in ops], "layout": _layout["cur"], "nchans": case.get("nchans", 64),
           "strict_warnings": bool(case["hseed"] % 4 == 0), "nan_bins": bool(case.get("nan_bins")), "ascending": bool(case.get("ascending")), "debug_logging": bool(case.get("debug_logging"))}
    if rec["strict_warnings"]:
        ctx.count("histories:warnings_as_errors")
    if run_history(ctx, shape, ops, rec) and case["hseed"] % 25 == 0:
        ctx.sample({"shape": list(shape), "random_history_head": [list(o) for o in ops[:6]], "length": len(ops)})
