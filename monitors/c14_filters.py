"""C14 - time-domain filters and decimators equal their definitions."""
from __future__ import annotations

import itertools

import numpy as np

from vlib import refmodels
from vlib.core import exc_site, fmt_exc
from vlib.redzone import Frame

PROPERTY = "C14"
LEVEL = "exploration"
CLAIM = {
    "text": "Exhaustive-lattice runtime check: running mean/median for every length 1..24 x every window 1..50 x {float32,float64,uint8} against an explicit symmetric-reflection index map (independent of np.pad and bottleneck); downsample_1d for every n 1..40 x every factor 1..n x {mean,median}; downsample_2d, downsample_2d_flat and the numba mean kernels (sequential and _parallel) for every shape <= 12x12 x every factor pair, incl. uint8 inputs at the dtype maximum (overflow probe); detrend_1d against float64 least squares; TimeSeries.deredden/downsample and FilterbankBlock.downsample compositions. Kernel arguments are red-zone framed. Every input array is compared with a private copy after the call (filters and decimators return new arrays). Rounds 7-8 added: 2-D arrays with 4099-9001 columns and small non-dyadic factors, fast de-reddening at 103/150/200 bins. Round 9 added: running filters on 2^18+5001 samples (even and odd windows; the mean against the single-precision drift bound 4e-7*sqrt(n)*max|x|). Round 10 added: running filters on double-precision and 64-bit integer series at 2^30.",
    "design_ref": "DESIGN.md section 3 (C14), 2.2",
    "note": "Trusted: explicit Python index arithmetic + numpy float64 mean/median/lstsq. For integer output dtypes |out - mean| < 1 is required (truncation vs rounding not specified).",
    "technique": "runtime monitoring: bounded-exhaustive lattice against explicit-index reference definitions + red-zone canaries",
}
ASSUMPTIONS = ["float32 results compared to float64 references at 1e-5 relative to the data scale"]
RULE = ("lattice: running filter n 1..24 x w 1..50 x method x dtype; downsample_1d n 1..40 x factor 1..n x method x dtype; 2-D decimators all shapes <= 12x12 x factors; "
        "detrend n 1..64 x 3 data classes; thorough adds random larger sizes. Non-trivial = output depends on >= 2 inputs; distinct = distinct (function, n/shape, w/factors, method, dtype).")
DTYPES = ("float32", "float64", "uint8")


def REQUIRED(tier):
    return ["running_filter", "running:w>n", "running:even_w", "downsample_1d", "downsample_1d:factor==n", "downsample_2d", "downsample_2d_flat", "kernel_2d_flat",
            "kernel_parallel", "overflow_probe", "detrend", "deredden", "ts_downsample", "block_downsample", "canary_audits", "input_unchanged_checks", "deredden_exact_after_fast", "detrend_long_series", "regime:2d_second_axis_over_4096", "running_filter_long_series", "median_after_larger_block_of_another_type", "running:level_beyond_single_precision"]


def EXHAUSTIVE(tier):
    return True


def cases(tier, seed):
    for n in range(1, 25):
        yield {"kind": "running", "n": n, "seed": int(seed)}
    for n in range(1, 41):
        yield {"kind": "ds1d", "n": n, "seed": int(seed)}
    for d1 in range(1, 13):
        yield {"kind": "ds2d", "d1": d1, "seed": int(seed)}
    yield {"kind": "detrend", "seed": int(seed)}
    yield {"kind": "running_long", "n": (1 << 18) + 5001, "ws": [6, 9, 64] if tier == "quick" else [2, 6, 9, 64, 100, 1001], "seed": int(seed)}
    yield {"kind": "detrend_long", "seed": int(seed), "ns": [10007, 55109, 65536, 300000]}
    yield {"kind": "detrend_long", "seed": int(seed) + 1, "ns": [1700000, 2500000]}
    if tier == "thorough":
        yield {"kind": "detrend_long", "seed": int(seed) + 2, "ns": [1 << 20, 1664511, 1664513, 5000000, 12000000]}
    for i in range(4):
        yield {"kind": "ds_large", "seed": int(seed), "i": i}
    for d1, d2 in ((3, 5000), (2, 9001), (6, 4099)):     # long second axis (a block of thousands of samples), small non-dyadic factors
        yield {"kind": "ds2d_big", "d1": d1, "d2": d2, "seed": int(seed), "facs": [[1, 3], [d1, 2], [1, 7], [2, 5], [d1, 4], [1, 10]], "wide": True}
    yield {"kind": "compose", "seed": int(seed)}
    if tier == "thorough":
        rng = np.random.default_rng([seed, 1414])
        for _ in range(300):
            yield {"kind": "running_big", "n": int(rng.integers(25, 3000)), "w": int(rng.integers(1, 4000)), "seed": int(rng.integers(0, 2**31))}
        for _ in range(300):
            yield {"kind": "ds2d_big", "d1": int(rng.integers(13, 200)), "d2": int(rng.integers(13, 300)), "seed": int(rng.integers(0, 2**31))}


def _data(rng, shape, dt):
    if dt == "uint8":
        return rng.integers(0, 256, size=shape).astype(np.uint8)
    return (rng.normal(size=shape) * 10 + 3).astype(dt)


def _close(got, want, scale, w=1):
    # float32 rolling sums over w samples accumulate up to ~w*eps32 relative error (bottleneck keeps the input precision)
    return np.all(np.abs(np.asarray(got, dtype=np.float64) - want) <= max(1e-5, 2.5e-7 * w) * max(1.0, scale))


def run_case(case, ctx):
    getattr(__import__(__name__, fromlist=["x"]), "_" + case["kind"])(case, ctx)


def _running(case, ctx, ws=None, n=None):
    from sigpyproc.core import stats

    n = n or case["n"]
    rng = np.random.default_rng([case["seed"], n, 1])
    for dt in DTYPES + (("float64_high", "int64_high") if (ws or n % 4 == 0) else ()):
        high = dt.endswith("_high")
        if high:
            # double-precision / wide-integer series on a level that single precision cannot resolve (2^30 + small integers): exact in float64
            x = ((1 << 30) + rng.integers(-100, 101, size=n)).astype(dt[:-5])
            ctx.count("running:level_beyond_single_precision")
        else:
            x = _data(rng, n, dt)
        x64 = x.astype(np.float64)
        for w in (ws or range(1, 51)):
            for method in ("mean", "median"):
                ctx.evaluated(); ctx.count("running_filter")
                if w > n:
                    ctx.count("running:w>n")
                if w % 2 == 0:
                    ctx.count("running:even_w")
                one = {"kind": "running_big" if ws else "running", "n": n, "w": w, "seed": case["seed"], "dtype": dt, "method": method}
                reg = f"{method}:{'w>n' if w > n else 'w<=n'}:{'even' if w % 2 == 0 else 'odd'}"
                xin = x
                if (n + w) % 3 == 0 and n > 1:   # same values in a strided view
                    big = np.zeros(2 * n, dtype=x.dtype)
                    big[::2] = x
                    xin = big[::2]
                    ctx.count("variant:strided_input")
                try:
                    got = stats.running_filter(xin, w, method=method)
                except Exception as exc:  # noqa: BLE001
                    ctx.violation(f"running-raised[{reg}]:{type(exc).__name__}@{exc_site(exc)}", f"n={n} w={w} {dt}: {fmt_exc(exc)}", one)
                    continue
                if np.asarray(got).shape != (n,):
                    ctx.violation(f"running-length[{reg}]", f"n={n} w={w}: output length {np.asarray(got).shape}", one)
                    continue
                want = refmodels.running_filter_ref(x64, w, method)
                ctx.count("input_unchanged_checks")
                if not np.array_equal(np.asarray(xin), x):
                    ctx.violation("input-modified:running_filter", f"n={n} w={w} {dt} {method}: the caller's array was changed in place", one)
                    return
                if high and not np.all(np.abs(np.asarray(got, dtype=np.float64) - want) <= (1e-3 if method == "mean" else 0.0)):
                    i = int(np.argmax(np.abs(np.asarray(got, dtype=np.float64) - want)))
                    ctx.violation(f"running-values[{reg}]:level-beyond-single-precision", f"n={n} w={w} {dt} {method}: out[{i}]={np.asarray(got)[i]!r}, definition {want[i]!r} (the series is exact in double precision)", one)
                    continue
                if not _close(got, want, np.abs(x64).max(), w):
                    i = int(np.argmax(np.abs(np.asarray(got, dtype=np.float64) - want)))
                    ctx.violation(f"running-values[{reg}]", f"n={n} w={w} {dt} {method}: out[{i}]={np.asarray(got)[i]!r}, definition {want[i]!r}", one)
                    continue
                if w >= 2 and n >= 2:
                    ctx.nontrivial_case(one)
    if not ws:
        ctx.sample({"function": "running_filter", "n": n, "windows": "1..50", "dtypes": list(DTYPES)})


def _running_big(case, ctx):
    _running(case, ctx, ws=[case["w"]], n=case["n"])


def _running_long(case, ctx):
    """Series of more than 2^18 samples with short even and odd windows (block-wise implementations have seams and halos)."""
    from numpy.lib.stride_tricks import sliding_window_view

    from sigpyproc.core import stats

    def ref(x64, w, method):
        lo = w // 2
        win = sliding_window_view(np.pad(x64, (lo, w - 1 - lo), mode="symmetric"), w)
        return win.mean(axis=1) if method == "mean" else np.median(win, axis=1)

    rng = np.random.default_rng([case["seed"], 77])
    small = rng.normal(size=200)
    for w in (1, 2, 5, 6, 64):       # the vectorised reference is the same function as the element-wise one
        for method in ("mean", "median"):
            assert np.allclose(ref(small, w, method), refmodels.running_filter_ref(small, w, method), rtol=0, atol=1e-12)
    n = int(case["n"])
    x = (rng.normal(size=n) * 5 + 30).astype(np.float32)
    x64 = x.astype(np.float64)
    for w in case["ws"]:
        for method in ("mean", "median"):
            ctx.evaluated(); ctx.count("running_filter"); ctx.count("running_filter_long_series")
            one = dict(case, w=w, method=method)
            got = np.asarray(stats.running_filter(x, w, method=method), dtype=np.float64)
            want = ref(x64, w, method)
            if got.shape != (n,):
                ctx.violation("running-length[long]", f"n={n} w={w}: output length {got.shape}", one); return
            # a single-precision running sum drifts by ~eps32*sqrt(n)*|x| along 2.7e5 samples (observed 8e-4 on a level of 30): the mean is judged
            # against that bound (a window displaced by one sample is off by scatter/w ~ 0.1-1), the median exactly as everywhere else
            ok = (float(np.max(np.abs(got - want))) <= 4e-7 * np.sqrt(n) * float(np.abs(x64).max())) if method == "mean" else _close(got, want, np.abs(x64).max(), w)
            if not ok:
                i = int(np.argmax(np.abs(got - want)))
                ctx.violation(f"running-values[{method}:long-series:{'even' if w % 2 == 0 else 'odd'}]", f"n={n} w={w} {method}: out[{i}]={got[i]!r}, definition {want[i]!r}", one)
                return
    ctx.nontrivial_case(case)


def _ds1d(case, ctx):
    from sigpyproc.core import kernels, stats

    n = case["n"]
    rng = np.random.default_rng([case["seed"], n, 2])
    for dt in DTYPES:
        for probe in (False, True):
            x = _data(rng, n, dt)
            if probe:
                if dt != "uint8":
                    continue
                x = np.full(n, 255, dtype=np.uint8)
                ctx.count("overflow_probe")
            x64 = x.astype(np.float64)
            for f in range(1, n + 1):
                m = n // f
                groups = x64[: m * f].reshape(m, f)
                for method in ("mean", "median"):
                    ctx.evaluated(); ctx.count("downsample_1d")
                    if f == n:
                        ctx.count("downsample_1d:factor==n")
                    one = {"kind": "ds1d", "n": n, "seed": case["seed"], "factor": f, "dtype": dt, "method": method, "probe": probe}
                    fr = Frame(rng)
                    xin = fr.like(x, "x")
                    try:
                        got = np.asarray(stats.downsample_1d(xin, f, method=method))
                    except Exception as exc:  # noqa: BLE001
                        ctx.violation(f"ds1d-raised:{method}:{dt}:{type(exc).__name__}@{exc_site(exc)}", f"n={n} f={f}: {fmt_exc(exc)}", one)
                        continue
                    ctx.count("canary_audits")
                    if fr.audit():
                        ctx.violation("oob-store:downsample_1d", str(fr.audit()), one)
                    ctx.count("input_unchanged_checks")
                    if not np.array_equal(np.asarray(xin), x):
                        ctx.violation(f"input-modified:downsample_1d:{method}", f"n={n} f={f} {dt}: the caller's array was changed in place", one)
                        continue
                    want = groups.mean(axis=1) if method == "mean" else np.median(groups, axis=1)
                    if got.shape != (m,):
                        ctx.violation(f"ds1d-length:{method}", f"n={n} f={f}: {got.shape[0]} outputs, {m} full groups", one)
                        continue
                    ok = np.all(np.abs(got.astype(np.float64) - want) < 1.0) if got.dtype.kind in "ui" else _close(got, want, np.abs(x64).max())
                    if not ok:
                        ctx.violation(f"ds1d-values:{method}:{dt}{':overflow' if probe else ''}", f"n={n} f={f}: got {got[:4].tolist()} want {want[:4].tolist()}", one)
                        continue
                    if f >= 2:
                        ctx.nontrivial_case(one)
                # parallel kernel
                if dt != "float64" or True:
                    ctx.evaluated(); ctx.count("kernel_parallel")
                    gp = np.asarray(kernels.downsample_1d_mean_parallel(x, f))
                    w = groups.mean(axis=1)
                    ok = np.all(np.abs(gp.astype(np.float64) - w) < 1.0) if gp.dtype.kind in "ui" else _close(gp, w, np.abs(x64).max())
                    if gp.shape != (m,) or not ok:
                        ctx.violation(f"ds1d-parallel-kernel:{dt}", f"n={n} f={f}: parallel kernel differs from group means", {"kind": "ds1d", "n": n, "seed": case["seed"], "factor": f})


def _check2d(ctx, one, name, got, want, dt, scale):
    got = np.asarray(got)
    if got.shape != want.shape:
        ctx.violation(f"{name}-shape", f"{one}: shape {got.shape} vs {want.shape}", one)
        return False
    ok = np.all(np.abs(got.astype(np.float64) - want) < 1.0) if got.dtype.kind in "ui" else _close(got, want, scale)
    if not ok and got.dtype.kind in "ui" and "f1" in one:
        # known mechanism: exact integer mean m computed as (m*F)*(1/F) < m with a hoisted reciprocal, then truncated
        tot = one["f1"] * one["f2"]
        diff = got.astype(np.float64) - want
        sel = np.abs(diff) >= 1.0   # the elements that violate |out - mean| < 1
        if np.all(diff[sel] == -1.0) and np.all(want[sel] == np.round(want[sel])) and np.all((want[sel] * tot) * (1.0 / tot) < want[sel]):
            ctx.violation("int-mean-one-below-exact:reciprocal-division-undershoot", f"{name} shape ({one.get('d1')},{one.get('d2')}) factors ({one.get('f1')},{one.get('f2')}): "
                          f"exact integer mean {want[sel][0]} returned as {got[sel][0]} ((m*F)*(1/F) < m for F={tot})", one)
            return False
    if not ok:
        idx = np.unravel_index(np.argmax(np.abs(got.astype(np.float64) - want)), want.shape)
        ctx.violation(f"{name}-values:{dt}", f"shape ({one.get('d1')},{one.get('d2')}) factors ({one.get('f1')},{one.get('f2')}): out{tuple(int(i) for i in idx)}={got[idx]!r} want {want[idx]!r}", one)
        return False
    return True


def _ds2d(case, ctx, d2s=None):
    from sigpyproc.core import kernels, stats

    d1 = case["d1"]
    rng = np.random.default_rng([case["seed"], d1, 3])
    for d2 in (d2s or range(1, 13)):
        for dt in DTYPES:
            a = _data(rng, (d1, d2), dt)
            if dt == "uint8" and (d1 + d2) % 3 == 0:
                a[...] = 255
                ctx.count("overflow_probe")
            a64 = a.astype(np.float64)
            facs = [tuple(f) for f in case["facs"]] if case.get("facs") else list(itertools.product(range(1, d1 + 1), range(1, d2 + 1))) if not d2s else [(int(rng.integers(1, d1 + 1)), int(rng.integers(1, d2 + 1))) for _ in range(6)]
            for f1, f2 in facs:
                m1, m2 = d1 // f1, d2 // f2
                blocks = a64[: m1 * f1, : m2 * f2].reshape(m1, f1, m2, f2)
                one = {"kind": "ds2d" if not d2s else "ds2d_big", "d1": d1, "d2": d2, "f1": f1, "f2": f2, "seed": case["seed"], "dtype": dt}
                scale = np.abs(a64).max()
                for method in ("mean", "median"):
                    want = blocks.mean(axis=(1, 3)) if method == "mean" else np.median(blocks.transpose(0, 2, 1, 3).reshape(m1, m2, f1 * f2), axis=2)
                    ctx.evaluated(); ctx.count("downsample_2d")
                    try:
                        ain = np.array(a.T, order="C", copy=True).T if (f1 + f2 + d2) % 3 == 0 else a   # transposed strides, same values
                        akeep = np.array(ain, copy=True)
                        got = stats.downsample_2d(ain, (f1, f2), method)
                        ctx.count("input_unchanged_checks")
                        if not np.array_equal(ain, akeep):
                            ctx.violation(f"input-modified:downsample_2d:{method}", f"({d1},{d2}) factors ({f1},{f2}) {dt}: the caller's array was changed in place", one)
                        _check2d(ctx, dict(one, method=method), f"downsample_2d:{method}", got, want, dt, scale)
                    except Exception as exc:  # noqa: BLE001
                        ctx.violation(f"downsample_2d-raised:{method}:{type(exc).__name__}@{exc_site(exc)}", fmt_exc(exc), one)
                    ctx.evaluated(); ctx.count("downsample_2d_flat")
                    fr = Frame(rng)
                    flat = fr.like(a.ravel(), "flat")
                    try:
                        gotf = np.asarray(stats.downsample_2d_flat(flat, f1, f2, d1, d2, method=method))
                        ctx.count("input_unchanged_checks")
                        if not np.array_equal(np.asarray(flat), a.ravel()):
                            ctx.violation(f"input-modified:downsample_2d_flat:{method}", f"({d1},{d2}) factors ({f1},{f2}) {dt}: the caller's array was changed in place", one)
                        _check2d(ctx, dict(one, method=method), f"downsample_2d_flat:{method}", gotf.reshape(m1, m2) if gotf.size == m1 * m2 else gotf, want, dt, scale)
                    except Exception as exc:  # noqa: BLE001
                        ctx.violation(f"downsample_2d_flat-raised:{method}:{type(exc).__name__}@{exc_site(exc)}", fmt_exc(exc), one)
                    ctx.count("canary_audits")
                    if fr.audit():
                        ctx.violation("oob-store:downsample_2d_flat", str(fr.audit()), one)
                wantm = blocks.mean(axis=(1, 3))
                fr = Frame(rng)
                flat = fr.like(a.ravel(), "flat")
                ctx.evaluated(); ctx.count("kernel_2d_flat")
                g = np.asarray(kernels.downsample_2d_mean_flat(flat, f1, f2, d1, d2))
                _check2d(ctx, one, "kernel-2d-flat", g.reshape(m1, m2) if g.size == m1 * m2 else g, wantm, dt, scale)
                ctx.evaluated(); ctx.count("kernel_parallel")
                gp = np.asarray(kernels.downsample_2d_mean_parallel(flat, f1, f2, d1, d2))
                _check2d(ctx, one, "kernel-2d-parallel", gp.reshape(m1, m2) if gp.size == m1 * m2 else gp, wantm, dt, scale)
                ctx.count("canary_audits")
                if fr.audit():
                    ctx.violation("oob-store:downsample_2d kernels", str(fr.audit()), one)
                if f1 * f2 >= 2:
                    ctx.nontrivial_case(one)
    # a median decimation of one sample type right after a larger one of another type (work arrays kept between calls carry no type over)
    for big_dt, small_dt in (("uint8", "float32"), ("float32", "float64"), ("uint8", "float64")):
        ab = _data(rng, (d1 + 2, 16), big_dt)
        asm = (rng.normal(size=(d1, 12)) * 100.0 + 0.3).astype(small_dt)
        one = {"kind": "ds2d", "d1": d1, "seed": case["seed"], "sequence": [big_dt, small_dt]}
        for nm in ("downsample_2d", "downsample_2d_flat"):
            ctx.evaluated(); ctx.count("median_after_larger_block_of_another_type")
            try:
                if nm == "downsample_2d":
                    stats.downsample_2d(ab, (1, 2), "median")
                    got = np.asarray(stats.downsample_2d(asm, (1, 2), "median"))
                else:
                    stats.downsample_2d_flat(ab.ravel(), 1, 2, d1 + 2, 16, method="median")
                    got = np.asarray(stats.downsample_2d_flat(asm.ravel(), 1, 2, d1, 12, method="median")).reshape(d1, 6)
            except Exception as exc:  # noqa: BLE001
                ctx.violation(f"{nm}-raised:median:{type(exc).__name__}@{exc_site(exc)}", fmt_exc(exc), one)
                continue
            want = np.median(asm.astype(np.float64).reshape(d1, 6, 2), axis=2)
            if got.shape != want.shape or np.max(np.abs(got.astype(np.float64) - want)) > (1e-12 if small_dt == "float64" else 2e-5) * 500:
                ctx.violation(f"{nm}:median:after-larger-block-of-another-type", f"({d1},12) {small_dt} block decimated right after a ({d1 + 2},16) {big_dt} block: max error {np.max(np.abs(got.astype(np.float64) - want)) if got.shape == want.shape else 'shape'} (result dtype {got.dtype})", one)
    ctx.sample({"function": "2-D decimators", "d1": d1, "d2": "1..12" if not d2s else d2s, "factors": "all pairs" if not d2s else "6 random"})


def _ds2d_big(case, ctx):
    if case.get("wide"):
        ctx.count("regime:2d_second_axis_over_4096")
    _ds2d(case, ctx, d2s=[case["d2"]])


def _ds_large(case, ctx):
    """Large decimation factors on float32 input: the mean must be accumulated in float64 (property: 'float64 accumulator')."""
    from sigpyproc.core import kernels, stats
    from sigpyproc.header import Header
    from sigpyproc.timeseries import TimeSeries

    rng = np.random.default_rng([case["seed"], case["i"], 6])
    n = 1 << 18
    for cls in ("const0.1", "random"):
        x = np.full(n, 0.1, dtype=np.float32) if cls == "const0.1" else (rng.random(n).astype(np.float32) * 3 + 0.37)
        x64 = x.astype(np.float64)
        for f in (4096, 50000, 65536, int(rng.integers(4097, 100000))):
            m = n // f
            want = x64[: m * f].reshape(m, f).mean(axis=1)
            one = dict(case, cls=cls, factor=f)
            for name, fn in (("downsample_1d", lambda: stats.downsample_1d(x, f)), ("kernel_1d_parallel", lambda: kernels.downsample_1d_mean_parallel(x, f)),
                             ("TimeSeries.downsample", lambda: TimeSeries(x, Header(filename="x", data_type="time series", nchans=1, foff=-1.0, fch1=1400.0, nbits=32, tsamp=1e-3,
                                                                                     tstart=58000.0, nsamples=n)).downsample(f).data)):
                ctx.evaluated(); ctx.count("downsample_1d")
                got = np.asarray(fn(), dtype=np.float64)
                if got.shape != want.shape or np.max(np.abs(got - want) / np.abs(want)) > 3e-7:
                    ctx.violation(f"large-factor-mean:{name}", f"n={n} factor={f} {cls}: relative error {np.max(np.abs(got - want) / np.abs(want)):.2e} (float32 accumulation?)", one)
                else:
                    ctx.nontrivial_case(dict(one, fn=name))
        d1, d2, f1, f2 = 300, 700, 150, int(rng.choice([350, 700, 233]))
        a = x[: d1 * d2].reshape(d1, d2)
        m1, m2 = d1 // f1, d2 // f2
        want2 = a.astype(np.float64)[: m1 * f1, : m2 * f2].reshape(m1, f1, m2, f2).mean(axis=(1, 3)).ravel()
        for name, fn in (("downsample_2d_flat", lambda: stats.downsample_2d_flat(a.ravel(), f1, f2, d1, d2)), ("kernel_2d_parallel", lambda: kernels.downsample_2d_mean_parallel(a.ravel(), f1, f2, d1, d2)),
                         ("downsample_2d", lambda: stats.downsample_2d(a, (f1, f2)).ravel())):
            ctx.evaluated(); ctx.count("downsample_2d_flat")
            got = np.asarray(fn(), dtype=np.float64)
            tol = 3e-7 if name != "downsample_2d" else 2e-5  # numpy's float32 pairwise mean is not covered by the float64-accumulator statement
            if got.shape != want2.shape or np.max(np.abs(got - want2) / np.abs(want2)) > tol:
                ctx.violation(f"large-factor-mean:{name}", f"({d1},{d2}) factors ({f1},{f2}) {cls}: relative error {np.max(np.abs(got - want2) / np.abs(want2)):.2e}", dict(case, cls=cls))


def _detrend(case, ctx):
    from sigpyproc.core import kernels

    rng = np.random.default_rng([case["seed"], 4])
    for n in range(1, 65):
        for cls in ("noise", "line", "line+noise"):
            for dt in ("float32", "float64"):
                t = np.arange(n, dtype=np.float64)
                y = {"noise": rng.normal(size=n), "line": 0.7 * t - 3, "line+noise": -0.2 * t + 11 + rng.normal(size=n)}[cls].astype(dt)
                ctx.evaluated(); ctx.count("detrend")
                one = {"kind": "detrend", "seed": case["seed"], "n": n, "cls": cls, "dtype": dt}
                try:
                    got = np.asarray(kernels.detrend_1d(y), dtype=np.float64)
                except Exception as exc:  # noqa: BLE001
                    ctx.violation(f"detrend-raised:{type(exc).__name__}", fmt_exc(exc), one)
                    continue
                y64 = y.astype(np.float64)
                if n >= 2:
                    A = np.stack([t, np.ones(n)], axis=1)
                    coef, *_ = np.linalg.lstsq(A, y64, rcond=None)
                    want = y64 - A @ coef
                else:
                    want = np.zeros(1)
                tol = (1e-4 if dt == "float32" else 1e-9) * max(1.0, np.abs(y64).max())
                if got.shape != (n,) or np.max(np.abs(got - want)) > tol:
                    ctx.violation(f"detrend-values:{dt}", f"n={n} {cls}: max |residual - lstsq residual| = {np.max(np.abs(got - want)) if got.shape == (n,) else 'shape'}", one)
                elif n >= 3:
                    ctx.nontrivial_case(one)


def _detrend_long(case, ctx):
    """Series of 10^4 .. 5x10^6 samples (an ordinary dedispersed time series): the closed-form index sums reach m^3 and m^4."""
    from sigpyproc.core import kernels

    rng = np.random.default_rng([case["seed"], 44])
    for n in case["ns"]:
        t = np.arange(n, dtype=np.float64)
        slope = float([1e-3, -7e-4, 2e-3][n % 3])     # a real trend: with a flat series a wrong normalisation of the slope goes unnoticed
        y = (slope * t - 3.0 + rng.normal(size=n)).astype(np.float32)
        ctx.evaluated(); ctx.count("detrend"); ctx.count("detrend_long_series")
        one = {"kind": "detrend_long", "seed": case["seed"], "ns": [n]}
        try:
            got = np.asarray(kernels.detrend_1d(y), dtype=np.float64)
        except Exception as exc:  # noqa: BLE001
            ctx.violation(f"detrend-raised:{type(exc).__name__}", fmt_exc(exc), one)
            continue
        y64 = y.astype(np.float64)
        tm, ym = t.mean(), y64.mean()
        b = float(np.sum((t - tm) * (y64 - ym)) / np.sum((t - tm) ** 2))
        want = y64 - (b * (t - tm) + ym)
        tol = 2e-6 * max(1.0, float(np.abs(y64).max())) * max(1.0, n / 1e5)     # float32 trend evaluation: ulp of |trend| grows with the span
        if got.shape != (n,) or np.max(np.abs(got - want)) > tol:
            ctx.violation("detrend-values:long-series", f"n={n}: max |residual - least-squares residual| = {np.max(np.abs(got - want)) if got.shape == (n,) else 'shape'} (> {tol:.1e})", one)
        else:
            ctx.nontrivial_case(one)


def _compose(case, ctx):
    from sigpyproc.block import FilterbankBlock
    from sigpyproc.header import Header
    from sigpyproc.timeseries import TimeSeries

    rng = np.random.default_rng([case["seed"], 5])

    def hdr(n, nch=1):
        return Header(filename="x", data_type="time series" if nch == 1 else "filterbank", nchans=nch, foff=-1.0, fch1=1400.0, nbits=32, tsamp=1e-3, tstart=58000.0, nsamples=n)

    for n in list(range(1, 40)) + [100, 257]:
        x = (rng.normal(size=n) * 5).astype(np.float32)
        x64 = x.astype(np.float64)
        ts = TimeSeries(x, hdr(n))
        for method in ("mean", "median"):
            for wsec in (0.001, 0.002, 0.003, 0.01, 0.05, 0.103, 0.15, 0.2, 1.0):
                w = round(wsec / 1e-3)
                ctx.evaluated(); ctx.count("deredden")
                one = {"kind": "compose", "seed": case["seed"], "n": n, "method": method, "window_s": wsec}
                try:
                    if w >= 202:   # the approximate variant is asked for first on the same object: the exact one must not inherit its answer
                        try:
                            ts.deredden(method=method, window=wsec, fast=True)
                            ctx.count("deredden_exact_after_fast")
                        except ValueError:
                            ctx.count("deredden_fast_refused")   # the approximate variant refuses series shorter than its decimation factor
                    got = np.asarray(ts.deredden(method=method, window=wsec).data, dtype=np.float64)
                    want = x64 - refmodels.running_filter_ref(x64, w, method)
                    if got.shape != (n,) or not _close(got, want, np.abs(x64).max(), w):
                        ctx.violation(f"deredden:{method}", f"n={n} window={w} bins: deredden != x - running {method}", one)
                    else:
                        ctx.nontrivial_case(one)
                    if w < 202:   # below two 101-point blocks the documented "fast" variant does not decimate: it is the exact filter
                        ctx.count("deredden_fast_exact_regime")
                        gotf = np.asarray(ts.deredden(method=method, window=wsec, fast=True).data, dtype=np.float64)
                        if gotf.shape != (n,) or not _close(gotf, want, np.abs(x64).max(), w):
                            ctx.violation(f"deredden:{method}:fast-option", f"n={n} window={w} bins: deredden(fast=True) != x - running {method} although the window is too short to be decimated", one)
                except Exception as exc:  # noqa: BLE001
                    ctx.violation(f"deredden-raised:{method}:{type(exc).__name__}@{exc_site(exc)}", f"n={n} w={w}: {fmt_exc(exc)}", one)
        for f in range(1, n + 1):
            for method in ("mean", "median"):
                ctx.evaluated(); ctx.count("ts_downsample")
                one = {"kind": "compose", "seed": case["seed"], "n": n, "factor": f, "method": method}
                try:
                    t2 = ts.downsample(f, filter_method=method)
                    m = n // f
                    g = x64[: m * f].reshape(m, f)
                    want = g.mean(axis=1) if method == "mean" else np.median(g, axis=1)
                    if f == 1:
                        want = x64
                    if t2.data.shape != want.shape or t2.header.nsamples != want.size or not _close(t2.data, want, np.abs(x64).max()):
                        ctx.violation(f"ts-downsample:{method}", f"n={n} f={f}: TimeSeries.downsample differs from group {method}s or header length wrong", one)
                except Exception as exc:  # noqa: BLE001
                    ctx.violation(f"ts-downsample-raised:{type(exc).__name__}@{exc_site(exc)}", f"n={n} f={f}: {fmt_exc(exc)}", one)
        ctx.count("input_unchanged_checks")
        if not np.array_equal(np.asarray(ts.data), x):
            ctx.violation("input-modified:TimeSeries", f"n={n}: TimeSeries.data changed by deredden/downsample calls that return new objects", {"kind": "compose", "seed": case["seed"], "n": n})
    for nch, n in ((1, 1), (1, 7), (4, 9), (8, 30), (6, 11), (12, 12)):
        a = (rng.normal(size=(nch, n)) * 5).astype(np.float32)
        a64 = a.astype(np.float64)
        blk = FilterbankBlock(a, hdr(n, nch))
        for ff, tf in itertools.product(range(1, nch + 1), range(1, n + 1)):
            for method in ("mean", "median"):
                ctx.evaluated(); ctx.count("block_downsample")
                one = {"kind": "compose", "seed": case["seed"], "shape": [nch, n], "ffactor": ff, "tfactor": tf, "method": method}
                try:
                    b2 = blk.downsample(ffactor=ff, tfactor=tf, filter_method=method)
                    m1, m2 = nch // ff, n // tf
                    blocks = a64[: m1 * ff, : m2 * tf].reshape(m1, ff, m2, tf)
                    want = blocks.mean(axis=(1, 3)) if method == "mean" else np.median(blocks.transpose(0, 2, 1, 3).reshape(m1, m2, ff * tf), axis=2)
                    if b2.data.shape != want.shape or b2.header.nsamples != m2 or b2.header.nchans != m1 or not _close(b2.data, want, np.abs(a64).max()):
                        ctx.violation(f"block-downsample:{method}", f"shape ({nch},{n}) factors f={ff} t={tf}: block differs from {method} of each full group / header shape wrong", one)
                    elif ff * tf > 1:
                        ctx.nontrivial_case(one)
                except Exception as exc:  # noqa: BLE001
                    ctx.violation(f"block-downsample-raised:{type(exc).__name__}@{exc_site(exc)}", f"({nch},{n}) f={ff} t={tf}: {fmt_exc(exc)}", one)
        ctx.count("input_unchanged_checks")
        if not np.array_equal(np.asarray(blk.data), a):
            ctx.violation("input-modified:FilterbankBlock", f"({nch},{n}): block data changed by downsample calls that return new blocks", {"kind": "compose", "seed": case["seed"], "shape": [nch, n]})
