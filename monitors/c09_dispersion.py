"""C09 - one dispersion law, applied identically by every dedispersion path."""
from __future__ import annotations

import os

import numpy as np

from vlib import refmodels, sigfile
from vlib.core import exc_site, fmt_exc

AUDIT_INPUT_FILES = True   # after every case the driver verifies that the synthesised input files still hold their bytes
PROPERTY = "C09"
LEVEL = "exploration"
CLAIM = {
    "text": "Exploration by runtime monitoring: (a) compute_dmdelays/Header.get_dmdelays are compared with the float64 law 4.148808e3*DM*(f^-2-fref^-2)/tsamp on seeded random bands (|delay-v| <= 0.5 + float32 error bound, zero at the reference channel, exact antisymmetry in DM, monotone in frequency); (b) on the same random block and DM every entry point - FilterbankBlock.dedisperse (+only_valid_samples), Filterbank.dedisperse, read_dedisp_block, dmt_transform (+only_valid_samples) - is compared element by element with x[c, t+delay_c] (circular or windowed as each declares), using the delays the library itself reports for the DM it reports, and every index the definition needs over the declared length must exist; (c) a pulse synthesised with the reported delays must collapse to one sample in every path, and dedisperse(DM) then dedisperse(-DM) must be the identity. DM grids include steps finer than one sample of delay, and the same block object is dedispersed against a second reference frequency; input files are re-hashed after every case. Rounds 7-8 added: interior sub-ranges streamed in several reads. Round 9 added: a reference at 1e25 MHz (delays relative to infinite frequency) and a channel whose samples sum to zero in the DM-time transform.",
    "design_ref": "DESIGN.md section 3 (C09)",
    "note": "Trusted: numpy float64 evaluation of the law, numpy fancy indexing as the definition. tol = 16*2^-24*4.148808e3*|DM|/tsamp*fmin^-2 (float32 evaluation error bound). Frequencies used by the oracle are the library's float32 channel centres.",
    "technique": "runtime monitoring: float64 law oracle + cross-path differential against the index formula on identical inputs",
}
ASSUMPTIONS = ["integer-valued float32 data (exact sums)", "|DM| <= 1e4 pc/cc", "cases with max|delay| >= block length are outside the domain (skipped, counted)"]
RULE = ("random bands: fch1 300..3000, foff +-0.01..+-8, nchans 1..64, tsamp 1e-5..1e-2, DM of either sign scaled so max|delay| < n, ref in "
        "{ch1,max,min,center,numeric}, block length 16..300; non-trivial = max|delay| >= 1; distinct = distinct case record")
PATHS = ("law", "block", "block_valid", "stream", "read_dedisp", "dmt", "dmt_valid", "pulse", "inverse")


def REQUIRED(tier):
    return [f"path:{p}" for p in PATHS] + ["regime:negative_delays", "regime:foff>0", "regime:dm<0", "law_checks", "elements_compared", "regime:multi_file_input", "path:block_second_reference", "tie_sweep_dms", "exact_half_sample_ties", "law_after_stream_checks", "file_depth:4", "file_depth:1", "file_depth:8", "regime:input_header_carries_a_dm", "path:block_same_dm_twice", "regime:streamed_interior_subrange", "dmt:channel_with_samples_summing_to_zero", "law:same_band_other_sampling_time"]


def cases(tier, seed):
    n = 1500 if tier == "quick" else 30000
    for i in range(0, n, 10):
        yield {"kind": "paths", "n": 10, "seed": int(seed) * 100003 + i}
    for i in range(0, n * 10, 200):
        yield {"kind": "law", "n": 200, "seed": int(seed) * 100003 + i}
    for i in range(8 if tier == "quick" else 160):
        yield {"kind": "ties", "n": 1, "seed": int(seed) * 100003 + i}


def _band(rng):
    nch = int(rng.choice([1, 2, 3, 8, 16, int(rng.integers(1, 65))]))
    fch1 = float(rng.uniform(300, 3000))
    foff = float(rng.choice([-1, 1]) * rng.choice([0.01, 0.1, 1 / 3, 0.390625, 1.0, 4.0, 8.0, float(rng.uniform(0.01, 8))]))
    if fch1 + foff * nch < 100:  # keep the band above 100 MHz
        foff = abs(foff)
    tsamp = float(10 ** rng.uniform(-5, -2))
    return nch, fch1, foff, tsamp


def _hdr(nch, fch1, foff, tsamp, n, nbits=32):
    from sigpyproc.header import Header

    return Header(filename="x.fil", data_type="filterbank", nchans=nch, foff=foff, fch1=fch1, nbits=nbits, tsamp=tsamp, tstart=58000.0, nsamples=n)


def _ref_choice(rng, hdr):
    r = rng.choice(["ch1", "max", "min", "center", "numeric"])
    if r == "numeric":
        if rng.random() < 0.3:     # a reference well outside the band (infinite frequency, or far below): every delay has the same sign
            return float(rng.choice([2.0 * float(hdr.fmax), 1.0e6, 0.6 * float(hdr.fmin), 1.0e25]))    # 1e25 MHz: delays relative to infinite frequency
        return float(rng.uniform(hdr.fmin - 50, hdr.fmax + 50))
    return str(r)


def _fref(hdr, ref):
    if isinstance(ref, str):
        return float({"ch1": hdr.fch1, "max": float(hdr.fmax), "min": float(hdr.fmin), "center": hdr.fcenter}[ref])
    return float(ref)


def _pick_dm(rng, hdr, n, ref="ch1", frac=None):
    """DM of either sign such that max|delay| is about frac*n samples."""
    f = np.asarray(hdr.chan_freqs, dtype=np.float64)
    span = np.max(np.abs(f ** -2.0 - _fref(hdr, ref) ** -2.0))
    frac = float(rng.uniform(0.0, 0.9)) if frac is None else frac
    if span == 0:
        return float(rng.uniform(-100, 100))
    dm = min(frac * n * hdr.tsamp / (refmodels.DM_CONST * span), 1.0e4)  # keep DMs physical (|DM| <= 1e4)
    return float(dm * rng.choice([-1, 1]))


def run_case(case, ctx):
    if case["kind"] == "ties":
        return _ties(case, ctx)
    js = [case["only"]] if "only" in case else range(case["n"])
    for j in js:
        (_law if case["kind"] == "law" else _paths)(case, j, ctx)


def _ties(case, ctx):
    """Delays of thousands of samples on a quarter-DM grid: a few per cent of the DMs put some channel's single-precision delay exactly
    half-way between two samples.  Whatever the tie rule, delays(-DM) == -delays(DM) must hold exactly (dedispersing at DM and then at -DM
    is the identity) and Header.get_dmdelays must agree with params.compute_dmdelays."""
    from sigpyproc import params

    rng = np.random.default_rng([case["seed"], 41])
    nch = int(rng.choice([32, 64, 128]))
    fch1 = float(rng.choice([1500.0, 1400.0, 800.0]))
    foff = -float(rng.choice([4.0, 1.0, 0.5])) * float(rng.choice([1, -1]))
    if foff > 0:
        fch1 = fch1 - 0.9 * nch * foff
    tsamp = float(rng.choice([64e-6, 128e-6, 2.0 ** -14]))
    hdr = _hdr(nch, fch1, foff, tsamp, 100000)
    f32 = np.asarray(hdr.chan_freqs).astype(np.float32)
    dm0 = float(rng.integers(50, 300))
    nties = 0
    for k in range(400):
        dm = dm0 + 0.25 * k
        ctx.evaluated(); ctx.count("tie_sweep_dms")
        one = dict(case, dm=dm)
        try:
            d = np.asarray(hdr.get_dmdelays(dm)).astype(np.int64)
            dn = np.asarray(hdr.get_dmdelays(-dm)).astype(np.int64)
            dfun = np.asarray(params.compute_dmdelays(hdr.chan_freqs, dm, tsamp, hdr.fch1)).astype(np.int64)
            fl = np.asarray(hdr.get_dmdelays(dm, in_samples=False), dtype=np.float32) / np.float32(tsamp)
        except Exception as exc:  # noqa: BLE001
            ctx.violation(f"law-raised:{type(exc).__name__}@{exc_site(exc)}", fmt_exc(exc), one)
            return
        tie = np.abs(fl - np.floor(fl)) == 0.5
        nties += int(tie.sum())
        if not np.array_equal(dn, -d):
            c = int(np.flatnonzero(dn != -d)[0])
            ctx.violation(f"law-antisymmetry{'[exact-half-sample]' if tie[c] else ''}", f"delays(-{dm})[{c}] = {dn[c]} but delays({dm})[{c}] = {d[c]} (delay/tsamp = {float(fl[c])!r})", one)
            return
        if not np.array_equal(d, dfun):
            ctx.violation("law-header-vs-function", f"Header.get_dmdelays({dm}) differs from compute_dmdelays on the same inputs", one)
            return
        v = refmodels.dm_delay_exact(f32.astype(np.float64), dm, tsamp, float(hdr.fch1))
        # single-precision evaluation of the difference of two large terms: same error bound as in _law
        tolv = 16 * 2.0 ** -24 * refmodels.DM_CONST * abs(dm) / tsamp * max(float(f32.min()), 1.0) ** -2.0 + 16 * 2.0 ** -24 * np.abs(v)
        if np.any(np.abs(d - v) > 0.5 + tolv + 1e-9):
            c = int(np.argmax(np.abs(d - v)))
            ctx.violation("law-value", f"delay[{c}]={d[c]} but law gives {v[c]:.4f} (dm={dm})", one)
            return
    ctx.count("exact_half_sample_ties", nties)
    ctx.nontrivial_case(case)
    ctx.sample({"kind": "ties", "nchans": nch, "fch1": fch1, "foff": foff, "tsamp": tsamp, "dm_range": [dm0, dm0 + 100], "exact_half_sample_channels_seen": nties})


# ------------------------------------------------------------------ (a)
def _law(case, j, ctx):
    from sigpyproc import params

    rng = np.random.default_rng([case["seed"], j, 1])
    nch, fch1, foff, tsamp = _band(rng)
    hdr = _hdr(nch, fch1, foff, tsamp, 1000)
    ref = _ref_choice(rng, hdr)
    dm = float(rng.choice([0.0, rng.uniform(-500, 500), rng.uniform(-5, 5)]))
    one = {"kind": "law", "n": 1, "seed": case["seed"], "only": j}
    ctx.evaluated()
    ctx.count("path:law")
    try:
        d = np.asarray(hdr.get_dmdelays(dm, ref_freq=ref)).astype(np.int64)
        dneg = np.asarray(hdr.get_dmdelays(-dm, ref_freq=ref)).astype(np.int64)
        d2 = np.asarray(params.compute_dmdelays(hdr.chan_freqs, dm, tsamp, _fref(hdr, ref))).astype(np.int64)
    except Exception as exc:  # noqa: BLE001
        ctx.violation(f"law-raised:{type(exc).__name__}@{exc_site(exc)}", fmt_exc(exc), one)
        return
    ctx.count("law_checks")
    if d.shape != (nch,):
        ctx.violation("law-shape", f"delays shape {d.shape} for {nch} channels", one)
        return
    f = np.asarray(hdr.chan_freqs, dtype=np.float64)
    fref = _fref(hdr, ref)
    v = refmodels.dm_delay_exact(f, dm, tsamp, fref)
    tol = 16 * 2.0 ** -24 * refmodels.DM_CONST * abs(dm) / tsamp * max(f.min(), 1.0) ** -2.0 * 1.0 + 16 * 2.0 ** -24 * np.abs(v)
    err = np.abs(d - v)
    if np.any(err > 0.5 + tol + 1e-9):
        c = int(np.argmax(err - tol))
        ctx.violation("law-value", f"delay[{c}]={d[c]} but law gives {v[c]:.4f} (tol {tol[c] if np.ndim(tol) else tol:.2e}; dm={dm}, f={f[c]}, fref={fref}, tsamp={tsamp})", one)
        return
    if not np.array_equal(d, d2):
        ctx.violation("law-header-vs-function", "Header.get_dmdelays differs from compute_dmdelays on the same inputs", one)
    if j % 3 == 0 and dm:
        # the same band and DM described at another sampling time (a file and its time-decimated copy, handled by one process): the table in
        # samples follows the header it is asked of
        ts2 = tsamp * float(rng.choice([2.0, 4.0, 0.5]))
        hdr2 = _hdr(nch, fch1, foff, ts2, 1000)
        dd2 = np.asarray(hdr2.get_dmdelays(dm, ref_freq=ref)).astype(np.int64)
        v2 = refmodels.dm_delay_exact(f, dm, ts2, fref)
        ctx.count("law:same_band_other_sampling_time")
        if np.any(np.abs(dd2 - v2) > 0.5 + tol * (tsamp / ts2) + 1e-9):
            c = int(np.argmax(np.abs(dd2 - v2)))
            ctx.violation("law-value:same-band-other-sampling-time", f"delay[{c}]={dd2[c]} for tsamp={ts2} right after the same band/DM at tsamp={tsamp}; law gives {v2[c]:.4f}", one)
            return
    if not np.array_equal(dneg, -d):
        ctx.violation("law-antisymmetry", f"delays(-DM) != -delays(DM): {dneg[:4]} vs {(-d)[:4]}", one)
    if isinstance(ref, str) and ref in ("max", "min", "ch1"):
        c0 = {"max": int(np.argmax(f)), "min": int(np.argmin(f)), "ch1": 0}[ref]
        # only where single precision can resolve one sample at that channel (the two f^-2 terms are rounded separately)
        if d[c0] != 0 and abs(v[c0]) + (tol[c0] if np.ndim(tol) else tol) < 0.49:
            ctx.violation(f"law-nonzero-at-reference[{ref}]", f"delay at the reference channel {c0} is {d[c0]}", one)
    # monotone in frequency where the exact values are separated by more than the error bound
    order = np.argsort(f)
    vs, ds = v[order] * np.sign(dm if dm else 1), d[order] * int(np.sign(dm if dm else 1))
    gap = np.diff(vs)  # decreasing with frequency for dm>0
    tmax = np.max(tol) if np.ndim(tol) else tol
    bad = (np.abs(gap) > 2 * tmax + 1e-9) & (np.diff(ds) > 0)
    if np.any(bad):
        ctx.violation("law-monotone", "delays not monotone in frequency", one)
    if np.max(np.abs(d)) >= 1:
        ctx.nontrivial_case(one)
    if j == 0:
        ctx.sample({"kind": "law", "nchans": nch, "fch1": fch1, "foff": foff, "tsamp": tsamp, "dm": dm, "ref": ref, "delays_head": d[:6].tolist(), "law_head": v[:6].round(3).tolist()})


# ------------------------------------------------------------------ (b,c)
def _viol(ctx, path, regime, msg, one):
    ctx.violation(f"{path}[{regime}]", msg, one)


def _paths(case, j, ctx):
    from sigpyproc.block import FilterbankBlock
    from sigpyproc.readers import FilReader

    rng = np.random.default_rng([case["seed"], j, 2])
    nch, fch1, foff, tsamp = _band(rng)
    n = int(rng.integers(16, 300))
    hdr = _hdr(nch, fch1, foff, tsamp, n)
    ref = _ref_choice(rng, hdr)
    dm = _pick_dm(rng, hdr, n, ref)
    # depth of the file the streamed paths read from: packed depths where the channel count allows a whole number of bytes per sample
    fbits = [32, 8, 4, 2, 1, 32][(case["seed"] + j) % 6]
    if (nch * fbits) % 8:
        fbits = 32
    ctx.count(f"file_depth:{fbits}")
    frefdm = 17.25 if (case["seed"] + j) % 4 == 3 else None      # some observations already carry a reference DM in the header
    x = rng.integers(0, min(200, 1 << fbits), size=(nch, n)).astype(np.float32)
    xf = x.astype(np.float64)
    one = {"kind": "paths", "n": 1, "seed": case["seed"], "only": j}
    ar = np.arange(n)
    if foff > 0:
        ctx.count("regime:foff>0")
    if dm < 0:
        ctx.count("regime:dm<0")
    blk = FilterbankBlock(x, hdr)

    def delays_for(dmv, r):
        return np.asarray(hdr.get_dmdelays(dmv, ref_freq=r)).reshape(-1).astype(np.int64)

    d = delays_for(dm, ref)
    if np.max(np.abs(d)) >= n:
        ctx.skip("max|delay| >= n")
        return
    neg = bool(d.min() < 0)
    if neg:
        ctx.count("regime:negative_delays")
    regime = "negative-delays" if neg else "nonnegative-delays"
    if np.max(np.abs(d)) >= 1:
        ctx.nontrivial_case(one)

    # ---- block rotation
    ctx.evaluated(); ctx.count("path:block")
    try:
        out = blk.dedisperse(dm, ref_freq=ref)
        want = np.stack([xf[c, (ar + d[c]) % n] for c in range(nch)])
        ctx.count("elements_compared", want.size)
        if out.data.shape != want.shape or not np.array_equal(out.data, want):
            _viol(ctx, "block-dedisperse", regime, f"FilterbankBlock.dedisperse != x[c,(t+d_c) mod n] (dm={dm}, ref={ref})", one)
        elif out.dm != dm:
            _viol(ctx, "block-dedisperse-dm", regime, f"block.dm={out.dm} != {dm}", one)
    except Exception as exc:  # noqa: BLE001
        _viol(ctx, f"block-dedisperse-raised:{type(exc).__name__}@{exc_site(exc)}", regime, fmt_exc(exc), one)

    # ---- the same block object again at the same DM with another reference frequency (no per-object delay memo may leak)
    ref2 = "min" if ref != "min" else "max"
    d2 = delays_for(dm, ref2)
    if np.max(np.abs(d2)) < n:
        ctx.evaluated(); ctx.count("path:block_second_reference")
        try:
            out2 = blk.dedisperse(dm, ref_freq=ref2)
            want2 = np.stack([xf[c, (ar + d2[c]) % n] for c in range(nch)])
            if not np.array_equal(out2.data, want2):
                _viol(ctx, "block-dedisperse:second-reference-on-same-block", regime, f"dedisperse(dm, ref_freq={ref2!r}) after dedisperse(dm, ref_freq={ref!r}) on the same block != x[c,(t+d_c) mod n]", one)
        except Exception as exc:  # noqa: BLE001
            _viol(ctx, f"block-dedisperse-raised:{type(exc).__name__}@{exc_site(exc)}", regime, fmt_exc(exc), one)
    # ---- valid-samples variant
    ctx.evaluated(); ctx.count("path:block_valid")
    lo, hi = max(0, -int(d.min())), n - max(0, int(d.max()))
    try:
        outv = blk.dedisperse(dm, ref_freq=ref, only_valid_samples=True)
        if hi <= lo:
            _viol(ctx, "block-valid-accepted-empty", regime, "valid-samples dedispersion returned data although no sample is valid", one)
        else:
            want = np.stack([xf[c, lo + d[c] : hi + d[c]] for c in range(nch)])
            ctx.count("elements_compared", want.size)
            if outv.data.shape != want.shape or outv.header.nsamples != want.shape[1] or not np.array_equal(outv.data, want):
                _viol(ctx, "block-valid", regime, f"only_valid_samples result shape {outv.data.shape} (declares {outv.header.nsamples}) vs window {want.shape} or values differ", one)
    except ValueError as exc:
        if hi > lo:
            _viol(ctx, "block-valid-refused", regime, f"valid window [{lo},{hi}) exists but call raised {fmt_exc(exc)}", one)
    except Exception as exc:  # noqa: BLE001
        _viol(ctx, f"block-valid-raised:{type(exc).__name__}@{exc_site(exc)}", regime, fmt_exc(exc), one)

    # ---- streamed file paths (reference ch1)
    d1 = delays_for(dm, "ch1")
    neg1 = bool(d1.min() < 0)
    regime1 = "negative-delays" if neg1 else "nonnegative-delays"
    frng = np.random.default_rng([case["seed"], j, 99])
    if n >= 4 and frng.random() < 0.4:   # the same samples spread over two or three contiguous files
        nf = int(frng.choice([2, 3]))
        cuts = sorted(frng.choice(np.arange(1, n), size=nf - 1, replace=False).tolist())
        dd = os.path.join(ctx.tmp, "c09in")
        os.makedirs(dd, exist_ok=True)
        pths = sigfile.write_split(dd, x.T if fbits == 32 else x.T.astype(np.uint8), fbits, [b - a for a, b in zip([0] + cuts, cuts + [n])], fch1=fch1, foff=foff, tsamp=tsamp, **({"refdm": frefdm} if frefdm else {}))
        fil = FilReader(pths, check_contiguity=False)  # MJD start times cannot resolve 10 us sampling; contiguity is not the subject here
        ctx.count("regime:multi_file_input")
    else:
        p = os.path.join(ctx.tmp, "c09.fil")
        sigfile.write_fil(p, x.T if fbits == 32 else x.T.astype(np.uint8), fbits, fch1=fch1, foff=foff, tsamp=tsamp, **({"refdm": frefdm} if frefdm else {}))
        fil = FilReader(p)
    if frefdm:
        ctx.count("regime:input_header_carries_a_dm")
    if np.max(np.abs(d1)) < n:
        ctx.evaluated(); ctx.count("path:stream")
        try:
            gulp = int(rng.choice([n, 10 * n, max(1, n // 3), 7]))
            span1 = int(d1.max()) - int(d1.min())
            s0, ns_ = 0, n
            if frng.random() < 0.4 and n - span1 >= 12:
                # an interior sub-range streamed in several reads
                s0 = int(frng.integers(1, max(2, (n - span1) // 3)))
                ns_ = int(frng.integers(span1 + 2, n - s0)) if n - s0 > span1 + 2 else n - s0
                gulp = int(frng.choice([max(1, ns_ // 3), 7, max(1, ns_ // 2)]))
                ctx.count("regime:streamed_interior_subrange")
                ts = fil.dedisperse(dm, gulp=gulp, start=s0, nsamps=ns_, quiet=True, description="v")
            else:
                ts = fil.dedisperse(dm, gulp=gulp, quiet=True, description="v")
            L = ts.data.size
            # the output declares its own time origin: first sample = input sample t_off
            t_off = int(round((ts.header.tstart - 58000.0) * 86400.0 / tsamp))
            idx_ok = all(s0 <= t_off + d1[c] and t_off + (L - 1) + d1[c] < s0 + ns_ for c in range(nch)) if L > 0 else True
            if not idx_ok:
                _viol(ctx, "stream-declared-length-needs-missing-samples", regime1,
                      f"Filterbank.dedisperse declares {L} samples from input sample {t_off} but x[t+d_c] needs indices outside [{s0},{s0 + ns_}) (delays {int(d1.min())}..{int(d1.max())}, dm={dm})", one)
            else:
                want = sum(xf[c, t_off + d1[c] : t_off + d1[c] + L] for c in range(nch))
                ctx.count("elements_compared", want.size)
                if L != ns_ - span1:
                    _viol(ctx, "stream-length", regime1, f"declared length {L} != nsamps - delay span = {ns_ - span1}", one)
                elif not np.array_equal(ts.data.astype(np.float64), want):
                    _viol(ctx, "stream-values", regime1, f"Filterbank.dedisperse != sum_c x[c,t+d_c] from t={t_off} (gulp={gulp}, dm={dm}, start={s0}, nsamps={ns_})", one)
                if ts.header.dm != dm:
                    _viol(ctx, "stream-dm", regime1, f"header.dm {ts.header.dm} != {dm}", one)
        except Exception as exc:  # noqa: BLE001
            _viol(ctx, f"stream-raised:{type(exc).__name__}@{exc_site(exc)}", regime1, fmt_exc(exc), one)

        # ---- the delay law must read the same after the streamed call as before it (no shared table altered by a consumer)
        ctx.count("law_after_stream_checks")
        try:
            d_after = np.asarray(fil.header.get_dmdelays(dm)).reshape(-1).astype(np.int64)
            d_hdr = np.asarray(hdr.get_dmdelays(dm)).reshape(-1).astype(np.int64)
            if not (np.array_equal(d_after, d1) and np.array_equal(d_hdr, d1)):
                _viol(ctx, "law-changed-by-streamed-dedispersion", regime1, f"get_dmdelays({dm}) returns {d_after[:4].tolist()} after Filterbank.dedisperse, {d1[:4].tolist()} before", one)
        except Exception as exc:  # noqa: BLE001
            _viol(ctx, f"law-after-stream-raised:{type(exc).__name__}", regime1, fmt_exc(exc), one)

        # ---- read_dedisp_block
        ctx.evaluated(); ctx.count("path:read_dedisp")
        lo1, hi1 = max(0, -int(d1.min())), n - max(0, int(d1.max()))
        if hi1 - lo1 >= 2:
            start = int(rng.integers(lo1, hi1 - 1))
            m = int(rng.integers(1, hi1 - start + 1))
            m = min(m, 60)
            try:
                b = fil.read_dedisp_block(start, m, dm)
                want = np.stack([xf[c, start + d1[c] : start + d1[c] + m] for c in range(nch)])
                ctx.count("elements_compared", want.size)
                if b.data.shape != want.shape or not np.array_equal(b.data, want):
                    nbad = int(np.sum(b.data != want)) if b.data.shape == want.shape else -1
                    _viol(ctx, "read_dedisp_block-values", regime1, f"read_dedisp_block({start},{m},{dm}) != x[c,start+t+d_c]: {nbad} of {want.size} elements differ (delays {int(d1.min())}..{int(d1.max())})", one)
                elif b.dm != dm:
                    _viol(ctx, "read_dedisp_block-dm", regime1, f"block.dm {b.dm} != {dm}", one)
            except Exception as exc:  # noqa: BLE001
                _viol(ctx, f"read_dedisp_block-raised:{type(exc).__name__}@{exc_site(exc)}", regime1, fmt_exc(exc), one)
            # a request whose dispersed samples do not all exist must be refused, not filled with something else
            # one sample past the top for the channel with the largest delay / one sample before 0 for the one with the smallest
            for st_bad, m_bad in ((n - int(d1.max()) - 1, 3), (-int(d1.min()) - 1, 2)):
                if 0 <= st_bad < n and (st_bad + int(d1.max()) + m_bad > n or st_bad + int(d1.min()) < 0):
                    ctx.count("read_dedisp_out_of_range_requests")
                    try:
                        bb = fil.read_dedisp_block(st_bad, m_bad, dm)
                        _viol(ctx, "read_dedisp_block-out-of-range-accepted", regime1, f"read_dedisp_block({st_bad},{m_bad},{dm}) returned a block of shape {bb.data.shape} although x[c,start+t+d_c] needs samples outside [0,{n})", one)
                    except ValueError:
                        pass
                    except Exception as exc:  # noqa: BLE001
                        _viol(ctx, f"read_dedisp_block-out-of-range-raised:{type(exc).__name__}", regime1, fmt_exc(exc), one)

    # ---- DM-time transform
    steps = int(rng.choice([1, 2, 5, 9, 65, 257], p=[0.15, 0.2, 0.2, 0.2, 0.15, 0.1]))   # fine grids: neighbouring trials differ in a few channels only
    blk_saved, xf_saved = blk, xf
    if j % 4 == 1 and n >= 12 and nch >= 2:
        # baseline-subtracted data: a channel whose samples cancel exactly (sum 0) is still a channel of the sum over channels
        xz = x.copy()
        xz[nch // 2, :] = 0
        xz[nch // 2, 3], xz[nch // 2, 9] = 9.0, -9.0
        xz[0] = xz[0] - np.float32(np.round(xz[0].mean()))
        blk, xf = FilterbankBlock(xz, hdr), xz.astype(np.float64)
        ctx.count("dmt:channel_with_samples_summing_to_zero")
    for valid in (False, True):
        path = "dmt_valid" if valid else "dmt"
        ctx.evaluated(); ctx.count(f"path:{path}")
        dmc = abs(dm) * 0.45
        try:
            dmt = blk.dmt_transform(dmc, dmsteps=steps, ref_freq=ref, only_valid_samples=valid)
            dms = np.asarray(dmt.dms, dtype=np.float64)
            if dmt.data.shape[0] != dms.size or dms.size != steps:
                _viol(ctx, f"{path}-rows", regime, f"{dmt.data.shape[0]} rows, {dms.size} DMs reported, {steps} requested", one)
                continue
            dd = np.stack([delays_for(float(v), ref) for v in dms])
            if np.max(np.abs(dd)) >= n:
                ctx.skip("dmt delays >= n")
                continue
            if not valid:
                want = np.stack([sum(xf[c, (ar + dd[i, c]) % n] for c in range(nch)) for i in range(steps)])
            else:
                lo2, hi2 = max(0, -int(dd.min())), n - max(0, int(dd.max()))
                if hi2 <= lo2:
                    _viol(ctx, f"{path}-accepted-empty", regime, "returned data although no sample is valid for all DMs", one)
                    continue
                want = np.stack([sum(xf[c, lo2 + dd[i, c] : hi2 + dd[i, c]] for c in range(nch)) for i in range(steps)])
            ctx.count("elements_compared", want.size)
            if dmt.data.shape != want.shape or dmt.header.nsamples != want.shape[1]:
                _viol(ctx, f"{path}-shape", regime, f"shape {dmt.data.shape} (declares {dmt.header.nsamples}) vs definition {want.shape}", one)
            elif not np.array_equal(dmt.data.astype(np.float64), want):
                flipped = np.stack([sum(xf[c, (ar - dd[i, c]) % n] for c in range(nch)) for i in range(steps)]) if not valid else None
                extra = ":sign-flipped" if flipped is not None and np.array_equal(dmt.data.astype(np.float64), flipped) else ""
                _viol(ctx, f"{path}-values{extra}", regime, f"row i != sum_c x[c,(t+d_c(dms[i]))] for the reported dms (dm={dmc}, steps={steps}, ref={ref})", one)
        except ValueError as exc:
            if valid:
                dd = np.stack([delays_for(float(v), ref) for v in (dmc + np.linspace(-dmc, dmc, steps))])
                if n - max(0, int(dd.max())) - max(0, -int(dd.min())) > 0:
                    _viol(ctx, f"{path}-refused:{exc_site(exc)}", regime, f"valid window exists but call raised {fmt_exc(exc)}", one)
            else:
                _viol(ctx, f"{path}-raised:ValueError@{exc_site(exc)}", regime, fmt_exc(exc), one)
        except Exception as exc:  # noqa: BLE001
            _viol(ctx, f"{path}-raised:{type(exc).__name__}@{exc_site(exc)}", regime, fmt_exc(exc), one)

    blk, xf = blk_saved, xf_saved
    # ---- (c) pulse restored to one sample; inverse
    ctx.evaluated(); ctx.count("path:pulse")
    lo, hi = max(0, -int(d.min())), n - max(0, int(d.max()))
    if hi > lo:
        t0 = int(rng.integers(lo, hi))
        pulse = np.zeros((nch, n), dtype=np.float32)
        for c in range(nch):
            pulse[c, t0 + d[c]] = 1.0
        pb = FilterbankBlock(pulse, hdr)
        try:
            prof = pb.dedisperse(dm, ref_freq=ref).data.sum(axis=0)
            if prof[t0] != nch or np.count_nonzero(prof) != 1:
                _viol(ctx, "pulse-block", regime, f"pulse synthesised with the reported delays not restored to one sample: peak {prof.max()} at {int(np.argmax(prof))}, expected {nch} at {t0}", one)
            if ref == "ch1" and not bool(d.min() < 0):
                pp = os.path.join(ctx.tmp, "c09p.fil")
                sigfile.write_fil(pp, pulse.T, 32, fch1=fch1, foff=foff, tsamp=tsamp)
                tsr = FilReader(pp).dedisperse(dm, gulp=max(1, n // 2), quiet=True, description="v")
                ts = tsr.data
                # the series declares its own time origin (first sample = input sample t_off)
                t_off = int(round((tsr.header.tstart - 58000.0) * 86400.0 / tsamp))
                if not (0 <= t0 - t_off < ts.size) or ts[t0 - t_off] != nch or np.count_nonzero(ts) != 1:
                    _viol(ctx, "pulse-stream", regime, f"streamed dedispersion: peak {ts.max()} at {int(np.argmax(ts))} (+ origin {t_off}), expected {nch} at {t0}", one)
        except Exception as exc:  # noqa: BLE001
            _viol(ctx, f"pulse-raised:{type(exc).__name__}@{exc_site(exc)}", regime, fmt_exc(exc), one)
    ctx.evaluated(); ctx.count("path:inverse")
    try:
        back = blk.dedisperse(dm, ref_freq=ref).dedisperse(-dm, ref_freq=ref)
        if not np.array_equal(back.data, x):
            _viol(ctx, "inverse", regime, "dedisperse(DM) then dedisperse(-DM) is not the identity", one)
    except Exception as exc:  # noqa: BLE001
        _viol(ctx, f"inverse-raised:{type(exc).__name__}@{exc_site(exc)}", regime, fmt_exc(exc), one)
    # the same DM applied again to a block that already records it (e.g. a block from read_dedisp_block): the delays are applied again,
    # whatever the block says about itself, and the options are honoured
    ctx.evaluated(); ctx.count("path:block_same_dm_twice")
    try:
        once = blk.dedisperse(dm, ref_freq=ref)
        twice = once.dedisperse(dm, ref_freq=ref)
        want2 = np.stack([np.roll(xf[c], -2 * int(d[c])) for c in range(nch)])
        if twice.data.shape != want2.shape or not np.array_equal(twice.data.astype(np.float64), want2):
            _viol(ctx, "block-dedisperse:same-dm-twice", regime, f"dedisperse({dm}) of a block that already records dm={once.dm}: rows are not rotated by the delays a second time", one)
    except Exception as exc:  # noqa: BLE001
        _viol(ctx, f"block-twice-raised:{type(exc).__name__}@{exc_site(exc)}", regime, fmt_exc(exc), one)
    if j == 0:
        ctx.sample({"kind": "paths", "nchans": nch, "n": n, "fch1": fch1, "foff": foff, "tsamp": tsamp, "dm": dm, "ref": ref, "delays": d[:8].tolist()})
