"""C10 - online channel statistics do not depend on how the stream is chunked or merged."""
from __future__ import annotations

import itertools

import os

import numpy as np

from vlib import refmodels
from vlib.core import exc_site, fmt_exc
from vlib.redzone import Frame

PROPERTY = "C10"
LEVEL = "exploration"
NUMBA_THREADS = 4
CLAIM = {
    "text": "Exploration by runtime monitoring over histories: for short streams (n <= 10) every composition of n into consecutive chunks (2^(n-1)) and every split point for the merge a+b, and for longer streams seeded random compositions, unequal merges (k=1, k=n-1) and merges of merges, are fed to the real ChannelStats (basic and full modes, red-zone framed inputs) and compared after each history with the float64 two-pass definition (count/min/max exact, mean/var/skew/kurtosis within 1e-4 relative) and with each other (1e-5); constant channels must give var == skew == 0 exactly and every statistic must be finite. Thorough varies numba thread counts since the moment kernels are parallel. Added: double-precision inputs (incl. constants that single precision cannot represent), statistics read after every chunk ('peek' histories), merges spelled `a += b`, and merges of accumulators holding 10^5 .. 8x10^6 samples at different levels (count^3 terms). Rounds 7-8 added: single chunks of more than 2^20 elements with 3/96 channels, one level repeated more than 2^16 times in a chunk, and a merged count beyond 2^24. Round 9 added: the reader's accumulator re-read after clean_rfi flagged channels. Round 10 added: bands of 33/40/100/129/250/1031 channels (off every tile size).",
    "design_ref": "DESIGN.md section 3 (C10), 2.2",
    "note": "Trusted: numpy float64 two-pass moments. Wide-range float data are bounded (|x| in {0} U [1e-3, 6.5e4]) so float32 fourth moments cannot overflow. Kurtosis is not judged on zero-variance channels.",
    "technique": "runtime monitoring: partition/merge history enumeration against a two-pass float64 oracle + cross-partition agreement + red-zone canaries",
}
ASSUMPTIONS = ["float32 accumulation error gate 1e-4 relative (measured noise ~1e-7..1e-6)", "ChannelStats is constructed with the true stream length"]
RULE = ("data classes {constant, two-valued, 2/4/8-bit uniform, float32 normal, wide-range float, one huge outlier, tiny amplitude (1e-6)} x nchans {1,3,8} x modes {basic,full}: "
        "n in 1..10 all 2^(n-1) compositions + all split points; n in 11..2000 random compositions (incl. single-sample chunks), merges k in {1,n-1,random}, "
        "merge of merges. Non-trivial = >= 2 chunks or a merge; distinct = distinct (class, n, nchans, mode, composition/merge tree, seed).")
CLASSES = ("constant", "two_valued", "bits2", "bits4", "bits8", "normal", "wide", "outlier", "tiny", "const_f64", "normal_f64")


def REQUIRED(tier):
    return ["histories:composition", "histories:merge", "histories:merge_of_merges", "class:constant", "class:wide", "class:outlier", "class:tiny",
            "mode:basic", "mode:full", "constant_channel_checks", "single_sample_chunks", "canary_audits", "cross_partition_checks", "class:const_f64", "class:normal_f64", "histories:large_merge", "regime:merged_count_over_2^21", "histories:observed_mid_stream", "merge:augmented_assignment", "regime:chunks_of_thousands_of_samples", "histories:reused_chunk_buffer", "histories:after_refused_first_push", "histories:reader_windows", "regime:single_chunk_over_2^20_elements_nchans_not_power_of_two", "regime:one_level_repeated_over_2^16_times_in_a_chunk", "regime:merged_count_over_2^24", "histories:accumulator_read_after_cleaning:channels_flagged", "regime:channel_count_off_every_tile_size"]


def cases(tier, seed):
    k = 0
    for cls in CLASSES:
        for mode in ("basic", "full"):
            for n in range(1, 11):
                for nch in (1, 3):
                    k += 1
                    yield {"kind": "exhaustive", "cls": cls, "mode": mode, "n": n, "nchans": nch, "dseed": int(seed) * 1009 + k}
    k += 1
    yield {"kind": "large_merge", "n": (1 << 24) + 3, "split": 0.5, "shift": 2.0, "dseed": int(seed) * 1009 + k}     # a merged count that single precision cannot hold
    for i, n in enumerate((100000, 1 << 21, (1 << 21) + 2, 2200000, 3000000, 5000000) if tier == "quick" else (100000, 1500000, 1 << 21, (1 << 21) + 2, 2200000, 2500000, 3000000, 4000000, 5000000, 8000000)):
        for split, shift in ((0.5, 5.0), (0.1, -3.0)) if tier == "quick" else ((0.5, 5.0), (0.1, -3.0), (0.9, 40.0), (0.5, 0.0)):
            k += 1
            yield {"kind": "large_merge", "n": n, "split": split, "shift": shift, "dseed": int(seed) * 1009 + k}
    for i in range(10 if tier == "quick" else 200):
        k += 1
        yield {"kind": "reader_windows", "dseed": int(seed) * 1009 + k}
    lrng = np.random.default_rng([seed, 1011])
    for _ in range(24 if tier == "quick" else 400):     # long streams of few channels: chunks of thousands of samples
        k += 1
        yield {"kind": "random", "cls": str(lrng.choice(["normal", "bits8", "outlier", "normal_f64", "two_valued"])), "mode": str(lrng.choice(["basic", "full"])),
               "n": int(lrng.integers(4100, 40000)), "nchans": int(lrng.choice([1, 2, 3, 4, 5])), "dseed": int(seed) * 1009 + k, "threads": 0, "long": True}
    for nch, n in ((3, 360000), (96, 11000)) if tier == "quick" else ((3, 360000), (96, 11000), (5, 220000), (10, 130000), (48, 30000)):
        for mode in ("basic", "full"):      # one chunk of more than 2^20 elements with a channel count that does not divide 2^20
            k += 1
            yield {"kind": "random", "cls": "bits8" if mode == "basic" else "normal", "mode": mode, "n": n, "nchans": nch, "dseed": int(seed) * 1009 + k, "threads": 0, "long": True}
    for cls, mode in (("constant", "full"), ("two_valued", "full"), ("constant", "basic")):     # dead / saturated / one-bit channels: one level repeated >= 2^16 times in a chunk
        k += 1
        yield {"kind": "random", "cls": cls, "mode": mode, "n": 150000, "nchans": 2, "dseed": int(seed) * 1009 + k, "threads": 0, "long": True, "repeated_levels": True}
    wrng = np.random.default_rng([seed, 1012])
    for i in range(30 if tier == "quick" else 400):    # wide bands whose channel count is not a multiple of a tile (16, 32, 64) nor a power of two
        k += 1
        yield {"kind": "random", "cls": str(wrng.choice(["normal", "bits8", "two_valued", "outlier", "normal_f64"])), "mode": ("basic", "full")[i % 2], "n": int(wrng.integers(11, 500)),
               "nchans": int((33, 40, 100, 129, 250, 1031)[i % 6]), "dseed": int(seed) * 1009 + k, "threads": 0, "wide_band": True}
    rng = np.random.default_rng([seed, 1010])
    nr = 400 if tier == "quick" else 8000
    for _ in range(nr):
        k += 1
        yield {"kind": "random", "cls": str(rng.choice(CLASSES)), "mode": str(rng.choice(["basic", "full"])), "n": int(rng.integers(11, 2000)),
               "nchans": int(rng.choice([1, 3, 8, 17])), "dseed": int(seed) * 1009 + k,
               "threads": int(rng.choice([1, 2, 3, 4])) if tier == "thorough" else 0}


def gen_data(cls, n, nch, dseed):
    rng = np.random.default_rng([dseed, n, nch])
    if cls == "constant":
        x = np.tile(rng.integers(0, 255, size=nch), (n, 1)).astype(np.uint8)
    elif cls == "two_valued":
        x = rng.integers(0, 2, size=(n, nch)).astype(np.uint8)
    elif cls in ("bits2", "bits4", "bits8"):
        x = rng.integers(0, 1 << int(cls[4:]), size=(n, nch)).astype(np.uint8)
    elif cls == "normal":
        x = (rng.normal(size=(n, nch)) * rng.uniform(0.5, 20) + rng.uniform(-50, 50)).astype(np.float32)
    elif cls == "wide":
        mag = 10 ** rng.uniform(-3, np.log10(6.5e4), size=(n, nch))
        x = (mag * rng.choice([-1, 1, 0], size=(n, nch), p=[0.45, 0.45, 0.1])).astype(np.float32)
    elif cls == "tiny":  # low-amplitude floats: sums of squared deviations far below 1e-8 but far above float32 underflow
        x = (rng.normal(size=(n, nch)) * 1e-6 * rng.uniform(0.5, 5) + rng.uniform(-1e-6, 1e-6)).astype(np.float32)
        if n > 3:
            x[:, 0] = np.abs(x[:, 0]) ** 2 * 1e6   # skewed channel
    elif cls == "outlier":
        x = rng.normal(size=(n, nch)).astype(np.float32)
        x[rng.integers(0, n), :] = 3.0e4
        if n > 2:
            x[:, 0] = 7.0  # one constant channel next to outlier channels
    elif cls == "const_f64":   # double-precision constants that single precision cannot represent
        x = np.tile(rng.choice([0.1, 3.3, 1.0e6 + 0.1, -2.0 / 3.0], size=nch), (n, 1)).astype(np.float64)
    elif cls == "normal_f64":
        x = rng.normal(size=(n, nch)) * rng.uniform(0.5, 20) + rng.uniform(-50, 50)
        if n > 2:
            x[:, 0] = 0.1
    else:
        raise ValueError(cls)
    return x


def _push_all(cs_cls, x, chunks, mode, frame, first_index=0, peek=False, reuse=False, refused_first=False):
    """Feed x (n, nch) in consecutive chunks of the given sizes; returns the ChannelStats.

    peek: read every statistic after every chunk (a progress display): looking at an accumulator must not change what it reports later."""
    n, nch = x.shape
    cs = cs_cls(nch, n)
    pos = 0
    if refused_first:
        # a first push the library has to refuse (a 2-D chunk instead of the flat one): the accumulator must be as new afterwards
        try:
            cs.push_data(np.ascontiguousarray(x[: chunks[0]]).reshape(chunks[0], nch, 1), first_index, mode=mode)
        except Exception:  # noqa: BLE001
            pass
    work = None
    for i, c in enumerate(chunks):
        flat = np.ascontiguousarray(x[pos : pos + c]).ravel()
        if reuse:
            # one work buffer for every chunk (what a streaming reader does), scribbled over as soon as the push has returned
            if work is None or work.size < flat.size:
                work = np.empty(max(flat.size, max(chunks) * nch), dtype=flat.dtype)
            work[: flat.size] = flat
            cs.push_data(work[: flat.size], i + first_index, mode=mode)
            work[...] = 123 if flat.dtype.kind in "ui" else -9.75e3
        else:
            arr = frame.like(flat, f"chunk{i}")
            cs.push_data(arr, i + first_index, mode=mode)
        pos += c
        if peek:
            with np.errstate(all="ignore"):
                _ = (cs.mean, cs.var, cs.std, cs.maxima, cs.minima) + ((cs.skew, cs.kurtosis) if mode == "full" else ())
    return cs


def _stats(cs, mode):
    d = {"count": np.array(cs.moments["count"], dtype=np.int64), "min": np.array(cs.minima, dtype=np.float64), "max": np.array(cs.maxima, dtype=np.float64),
         "mean": np.array(cs.mean, dtype=np.float64), "var": np.array(cs.var, dtype=np.float64), "std": np.array(cs.std, dtype=np.float64)}
    if mode == "full":
        d["skew"] = np.array(cs.skew, dtype=np.float64)
        d["kurtosis"] = np.array(cs.kurtosis, dtype=np.float64)
    return d


def _check(ctx, case, what, got, ref, x, mode, hist):
    """Compare one history's result with the two-pass definition. Returns True if fine."""
    n = x.shape[0]
    tag = f"{what}:{case['cls']}:{mode}"
    one = dict(case, history=hist)
    for key, arr in got.items():
        if not np.all(np.isfinite(arr)):
            ctx.violation(f"non-finite:{key}:{tag}", f"{key} = {arr[:4].tolist()} for finite input (history {hist})", one)
            return False
    if not np.all(got["count"] == n):
        ctx.violation(f"count:{tag}", f"count {got['count'][:4].tolist()} != {n} (history {hist})", one)
        return False
    # the accumulator holds single-precision extremes: for double-precision input they are the rounded extremes
    rmin, rmax = (ref[k].astype(np.float32).astype(np.float64) if x.dtype == np.float64 else ref[k] for k in ("min", "max"))
    if not np.array_equal(got["min"], rmin) or not np.array_equal(got["max"], rmax):
        ctx.violation(f"minmax:{tag}", f"min/max {got['min'][:3].tolist()}/{got['max'][:3].tolist()} vs {ref['min'][:3].tolist()}/{ref['max'][:3].tolist()} (history {hist})", one)
        return False
    const = ref["min"] == ref["max"]
    if np.any(const):
        ctx.count("constant_channel_checks", int(const.sum()))
        if np.any(got["var"][const] != 0) or (mode == "full" and np.any(got["skew"][const] != 0)):
            ctx.violation(f"constant-channel:{tag}", f"constant channel reports var {got['var'][const][:3].tolist()} skew {got.get('skew', np.zeros(1))[const[: len(got.get('skew', []))]][:3].tolist() if mode == 'full' else '-'}", one)
            return False
    scale_x = np.maximum(np.abs(ref["mean"]), np.sqrt(ref["var"]))
    checks = [("mean", 1e-4 * np.maximum(scale_x, 1e-30)), ("var", 2e-4 * np.maximum(ref["var"], 1e-30) + 1e-5 * ref["mean"] ** 2 * 0)]
    if mode == "full":
        checks += [("skew", 1e-3 * np.maximum(1.0, np.abs(ref["skew"]))), ("kurtosis", 1e-3 * np.maximum(1.0, np.abs(ref["kurtosis"])))]
    for key, tol in checks:
        w = ref[key]
        sel = ~const if key in ("skew", "kurtosis", "var") else np.ones_like(const)
        # ill-conditioned channels (variance far below the mean square: float32 cannot resolve) are counted, not judged
        if key != "mean":
            cond = ref["var"] > 1e-9 * np.maximum(ref["mean"] ** 2, 1e-30)
            if np.any(~cond & sel):
                ctx.count("ill_conditioned_channels", int(np.sum(~cond & sel)))
            sel = sel & cond
        if np.any(np.abs(got[key] - w)[sel] > tol[sel]):
            c = int(np.flatnonzero(sel & (np.abs(got[key] - w) > tol))[0])
            ctx.violation(f"value:{key}:{tag}", f"{key}[{c}] = {got[key][c]!r}, two-pass {w[c]!r} (n={n}, history {hist})", one)
            return False
    return True


def _agree(ctx, case, mode, a, b, ha, hb):
    ctx.count("cross_partition_checks")
    for key in a:
        tol = 0 if key in ("count", "min", "max") else 2e-5
        scale = np.maximum(1.0, np.abs(b[key])) if key in ("skew", "kurtosis") else np.maximum(np.abs(b[key]), 1e-30)
        if key == "mean":  # accumulation error scales with the spread of the data, not with a near-zero mean
            scale = np.maximum(scale, np.maximum(a["std"], b["std"]))
        if key in ("var", "std"):
            scale = np.maximum(scale, 1e-6 * np.maximum(np.abs(a["mean"]), np.abs(b["mean"])) ** (2 if key == "var" else 1))
        if np.any(np.abs(a[key] - b[key]) > tol * scale):
            ctx.violation(f"partition-dependence:{key}:{case['cls']}:{mode}", f"{key} differs between histories {ha} and {hb}: {a[key][:3].tolist()} vs {b[key][:3].tolist()}", dict(case, history=[ha, hb]))
            return False
    return True


def _large_merge(case, ctx):
    """Accumulators holding millions of samples each, with different levels (two files of one observation): the merge terms
    carry count^2 and count^3."""
    from sigpyproc.core.stats import ChannelStats

    rng = np.random.default_rng([case["dseed"], 77])
    n = int(case["n"])
    mode = "full"
    x = rng.normal(size=(n, 1)).astype(np.float32)
    k = int(case["split"] * n)
    x[k:] += np.float32(case["shift"])
    ref = refmodels.moments_two_pass(x)
    ctx.evaluated(); ctx.count("histories:large_merge"); ctx.count("class:large"); ctx.count(f"mode:{mode}")
    if n > (1 << 21):
        ctx.count("regime:merged_count_over_2^21")
    if n > (1 << 24):
        ctx.count("regime:merged_count_over_2^24")
    hist = ["merge", k, n - k]
    try:
        a = ChannelStats(1, k); a.push_data(x[:k].ravel(), 0, mode=mode)
        b = ChannelStats(1, n - k); b.push_data(x[k:].ravel(), 0, mode=mode)
        got = _stats(a + b, mode)
        one_shot = ChannelStats(1, n); one_shot.push_data(x.ravel(), 0, mode=mode)
        got1 = _stats(one_shot, mode)
    except Exception as exc:  # noqa: BLE001
        ctx.violation(f"raised:large_merge:{type(exc).__name__}@{exc_site(exc)}", fmt_exc(exc), dict(case, history=hist))
        return
    c2 = dict(case, cls="large")
    if _check(ctx, c2, "large_merge", got, ref, x, mode, hist) and _check(ctx, c2, "large_one_shot", got1, ref, x, mode, [n]):
        _agree(ctx, c2, mode, got, got1, hist, [n])
        ctx.nontrivial_case({"c": "large", "n": n, "k": k, "s": case["dseed"]})


def _reader_windows(case, ctx):
    """The accumulators a reader hands out (Filterbank.chan_stats) for successive windows of one file: each stays the description of its own
    window, their sum describes the union, and the mode of one call does not leak into the next."""
    import tempfile

    from sigpyproc.readers import FilReader
    from vlib import sigfile

    rng = np.random.default_rng([case["dseed"], 91])
    n, nch = int(rng.integers(300, 900)), int(rng.choice([4, 8]))
    x = rng.gamma(2.0, 20.0, size=(n, nch)).clip(0, 255).astype(np.uint8)
    d = tempfile.mkdtemp(prefix="c10w-", dir=ctx.tmp)
    path = os.path.join(d, "w.fil")
    sigfile.write_fil(path, x, 8, fch1=1500.0, foff=-1.0, tsamp=1e-3)
    fil = FilReader(path)
    k = int(rng.integers(n // 4, 3 * n // 4))
    gulp = int(rng.choice([64, 100, 10 * n]))
    c2 = dict(case, cls="reader_windows")
    try:
        ctx.evaluated(); ctx.count("histories:reader_windows")
        fil.compute_stats(gulp=gulp, start=0, nsamps=k, quiet=True, description="v")
        a = fil.chan_stats
        fil.compute_stats_basic(gulp=gulp, start=k, nsamps=n - k, quiet=True, description="v")     # another window, basic mode
        fil.compute_stats(gulp=gulp, start=k, nsamps=n - k, quiet=True, description="v")           # the same window, full mode
        b = fil.chan_stats
        ok = _check(ctx, c2, "reader_window_1", _stats(a, "full"), refmodels.moments_two_pass(x[:k]), x[:k], "full", ["window", 0, k]) and \
            _check(ctx, c2, "reader_window_2", _stats(b, "full"), refmodels.moments_two_pass(x[k:]), x[k:], "full", ["window", k, n - k]) and \
            _check(ctx, c2, "reader_windows_merged", _stats(a + b, "full"), refmodels.moments_two_pass(x), x, "full", ["merge", k, n - k])
        if ok:
            # the accumulator is then used by the RFI cleaner (which only reads it) and afterwards again by the caller
            x2 = x.copy(); x2[:, 1] = np.where(np.arange(n) % 7 == 0, 255, x2[:, 1])      # one channel that the cleaner flags
            p2 = os.path.join(d, "w2.fil")
            sigfile.write_fil(p2, x2, 8, fch1=1500.0, foff=-1.0, tsamp=1e-3)
            f2 = FilReader(p2)
            f2.compute_stats(gulp=gulp, quiet=True, description="v")
            before = _stats(f2.chan_stats, "full")
            _, msk = f2.clean_rfi(method="mad", threshold=2.0, outfile_name=os.path.join(d, "w2_clean.fil"), gulp=gulp, quiet=True, description="v")
            ctx.count("histories:accumulator_read_after_cleaning")
            if np.any(np.asarray(msk.chan_mask)):
                ctx.count("histories:accumulator_read_after_cleaning:channels_flagged")
            after = _stats(f2.chan_stats, "full")
            bad = [kk for kk in before if not np.array_equal(np.asarray(before[kk]), np.asarray(after[kk]), equal_nan=False)]
            if bad:
                ctx.violation("statistics-changed-by-cleaning", f"{bad} of the reader's accumulator differ after clean_rfi() (flagged channels {np.flatnonzero(np.asarray(msk.chan_mask)).tolist()}); finite before: True, finite after: {all(np.all(np.isfinite(np.asarray(after[kk], dtype=np.float64))) for kk in after)}", c2)
                return
            ctx.nontrivial_case({"c": "reader_windows", "n": n, "k": k, "s": case["dseed"]})
    except Exception as exc:  # noqa: BLE001
        ctx.violation(f"raised:reader_windows:{type(exc).__name__}@{exc_site(exc)}", fmt_exc(exc), c2)


def run_case(case, ctx):
    from sigpyproc.core.stats import ChannelStats

    if case["kind"] == "large_merge":
        return _large_merge(case, ctx)
    if case["kind"] == "reader_windows":
        return _reader_windows(case, ctx)

    cls, mode, n, nch = case["cls"], case["mode"], case["n"], case["nchans"]
    if case.get("threads"):
        import numba

        numba.set_num_threads(min(case["threads"], numba.config.NUMBA_NUM_THREADS))
    x = gen_data(cls, n, nch, case["dseed"])
    ref = refmodels.moments_two_pass(x)
    ctx.count(f"class:{cls}")
    ctx.count(f"mode:{mode}")
    if case.get("wide_band"):
        ctx.count("regime:channel_count_off_every_tile_size")
    rng = np.random.default_rng([case["dseed"], 9])
    results = []

    def run_hist(kind, hist, fn):
        fr = Frame(rng)
        ctx.evaluated()
        ctx.count(f"histories:{kind}")
        try:
            cs = fn(fr)
            got = _stats(cs, mode)
        except Exception as exc:  # noqa: BLE001
            ctx.violation(f"raised:{kind}:{cls}:{mode}:{type(exc).__name__}@{exc_site(exc)}", fmt_exc(exc), dict(case, history=hist))
            return None
        ctx.count("canary_audits")
        bad = fr.audit()
        if bad:
            ctx.violation(f"oob-store:{kind}", f"guard zone modified: {bad}", dict(case, history=hist))
            return None
        if len(hist) >= 2 or kind != "composition":
            ctx.nontrivial_case({"c": cls, "m": mode, "n": n, "nch": nch, "h": hist, "s": case["dseed"]})
        if _check(ctx, case, kind, got, ref, x, mode, hist):
            results.append((hist, got))
        return cs

    def merge_of(k, fr):
        a = _push_all(ChannelStats, x[:k], [k], mode, fr)
        b = _push_all(ChannelStats, x[k:], [n - k], mode, fr)
        if k % 2:          # the augmented spelling of the same merge ("total += part")
            ctx.count("merge:augmented_assignment")
            a += b
            return a
        return a + b

    if case["kind"] == "exhaustive":
        for cuts in itertools.product((0, 1), repeat=n - 1):
            chunks, run = [], 1
            for c in cuts:
                if c:
                    chunks.append(run); run = 1
                else:
                    run += 1
            chunks.append(run)
            if 1 in chunks:
                ctx.count("single_sample_chunks")
            run_hist("composition", chunks, lambda fr, ch=chunks: _push_all(ChannelStats, x, ch, mode, fr))
            if len(chunks) >= 2:
                ctx.count("histories:observed_mid_stream")
                run_hist("composition", chunks + ["peek"], lambda fr, ch=chunks: _push_all(ChannelStats, x, ch, mode, fr, peek=True))
                ctx.count("histories:reused_chunk_buffer")
                run_hist("composition", chunks + ["reused-buffer"], lambda fr, ch=chunks: _push_all(ChannelStats, x, ch, mode, fr, reuse=True))
            if len(chunks) % 3 == 1:
                ctx.count("histories:after_refused_first_push")
                run_hist("composition", chunks + ["after-refused-push"], lambda fr, ch=chunks: _push_all(ChannelStats, x, ch, mode, fr, refused_first=True))
        for k in range(1, n):
            run_hist("merge", ["merge", k, n - k], lambda fr, k=k: merge_of(k, fr))
        if n >= 3:
            for k1 in range(1, n - 1):
                for k2 in range(k1 + 1, n):
                    def mm(fr, k1=k1, k2=k2):
                        a = _push_all(ChannelStats, x[:k1], [k1], mode, fr)
                        b = _push_all(ChannelStats, x[k1:k2], [k2 - k1], mode, fr)
                        c = _push_all(ChannelStats, x[k2:], [n - k2], mode, fr)
                        return (a + b) + c if (k1 + k2) % 2 else a + (b + c)
                    run_hist("merge_of_merges", ["mm", k1, k2 - k1, n - k2], mm)
    else:
        if case.get("long"):
            ctx.count("regime:chunks_of_thousands_of_samples")
        if case.get("repeated_levels"):
            ctx.count("regime:one_level_repeated_over_2^16_times_in_a_chunk")
        for it in range(6):
            m = int(rng.integers(1, min(n, 40))) if not case.get("long") else (1 if it == 0 else int(rng.integers(1, 6)))
            if m == 1 and n * nch > (1 << 20) and (nch & (nch - 1)):
                ctx.count("regime:single_chunk_over_2^20_elements_nchans_not_power_of_two")
            cuts = np.sort(rng.choice(np.arange(1, n), size=m - 1, replace=False)) if m > 1 else np.array([], dtype=int)
            chunks = np.diff(np.concatenate([[0], cuts, [n]])).astype(int).tolist()
            if rng.random() < 0.3:  # a run of single-sample chunks
                chunks = [1] * min(n - 1, 25) + [n - min(n - 1, 25)]
            if 1 in chunks:
                ctx.count("single_sample_chunks")
            pk = bool(rng.random() < 0.5) and len(chunks) >= 2
            if pk:
                ctx.count("histories:observed_mid_stream")
            run_hist("composition", (chunks if len(chunks) < 30 else chunks[:30] + ["..."]) + (["peek"] if pk else []), lambda fr, ch=chunks, pk=pk: _push_all(ChannelStats, x, ch, mode, fr, peek=pk))
        for k in (1, n - 1, int(rng.integers(1, n))):
            run_hist("merge", ["merge", k, n - k], lambda fr, k=k: merge_of(k, fr))
        k1 = int(rng.integers(1, n - 1)); k2 = int(rng.integers(k1 + 1, n))

        def mm(fr):
            a = _push_all(ChannelStats, x[:k1], [max(1, k1 // 2), k1 - max(1, k1 // 2)] if k1 > 1 else [1], mode, fr)
            b = _push_all(ChannelStats, x[k1:k2], [k2 - k1], mode, fr)
            c = _push_all(ChannelStats, x[k2:], [n - k2], mode, fr)
            return a + (b + c)
        run_hist("merge_of_merges", ["mm", k1, k2 - k1, n - k2], mm)
    for (ha, a), (hb, b) in zip(results, results[1:]):
        if not _agree(ctx, case, mode, a, b, ha, hb):
            break
    if results and ctx.evaluations % 97 < len(results):
        h, g = results[-1]
        ctx.sample({"cls": cls, "mode": mode, "n": n, "nchans": nch, "history": h, "mean": g["mean"][:2].tolist(), "var": g["var"][:2].tolist(),
                    "two_pass_var": ref["var"][:2].tolist()})
