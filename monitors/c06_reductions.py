"""C06 - streaming reductions are independent of gulp size and equal their definitions."""
from __future__ import annotations

import os

import numpy as np

from vlib import refmodels, sigfile
from vlib.core import exc_site, fmt_exc
from vlib.spies import KernelSpy, tiles_exactly_once

AUDIT_INPUT_FILES = True   # after every case the driver verifies that the synthesised input files still hold their bytes
PROPERTY = "C06"
LEVEL = "exploration"
CLAIM = {
    "text": "Exploration by runtime monitoring: collapse, bandpass, read_chan, dedisperse and compute_stats(+basic) of the real FilReader are run for every gulp 1..100 on a 97-sample file at depths 1,2,4,8,32 and for seeded random (gulp,start,nsamps,dm) on single and multi-file inputs; each result is compared with the float64/integer definition evaluated on the in-memory samples [start,start+nsamps) (bit-exact for sums on integer-valued data, 1 ulp for the bandpass division, 1e-4 for moments), with the gulp=infinity result (bit-for-bit), and a kernel-seam spy checks that the output index intervals of successive extract_tim/dedisperse calls tile the output exactly once. Thorough repeats under NUMBA_BOUNDSCHECK=1. After every case the synthesised input files are re-hashed (a reduction may not change its input). Rounds 7-8 added: the same band and DM at another sampling time handled earlier by the same process, and reductions that continue on one reader exactly where a full-block dedispersion stopped. Round 9 added: 1032/2048 bright 8-bit channels, dedispersion with a caller-supplied allocator whose memory is not zeroed.",
    "design_ref": "DESIGN.md section 3 (C06), 2.1, 2.5",
    "note": "Trusted: numpy float64 arithmetic, vlib/sigfile.py. Delays come from the library's own get_dmdelays (the law itself is C09); only DMs with all delays >= 0 and maxdelay < nsamps are in the domain. Integer-valued data keep float32 sums exact.",
    "technique": "runtime monitoring: differential oracle (definition on in-memory samples) + gulp-independence check + exactly-once tiling check on kernel call arguments",
}
ASSUMPTIONS = ["descending band and DM >= 0 so that all delays are >= 0; cases with maxdelay >= nsamps are skipped (counted)",
               "kurtosis is not judged on channels with zero variance"]
RULE = ("lattice: ops {collapse,bandpass,read_chan,dedisperse,stats,stats_basic} x gulp 1..100 on N=97,nchans=8 at depths {1,2,4,8,32}; "
        "random: (depth, 1..3 files, N<=400 quick / 2000 thorough, gulp incl. <2*maxdelay, >range, non-dividing; start,nsamps sub-ranges; dm). "
        "Non-trivial = the plan needs >= 2 blocks (gulp < nsamps); distinct = distinct (cfg, op, gulp, start, nsamps, dm).")
DEPTHS = (1, 2, 4, 8, 32)
OPS = ("collapse", "bandpass", "read_chan", "dedisperse", "stats", "stats_basic")
BOUNDSCHECK_TIERS = ("thorough",)


def REQUIRED(tier):
    return [f"op:{o}" for o in OPS] + ["regime:subrange_before_eof", "regime:>=3blocks", "regime:gulp<2*maxdelay", "regime:gulp>nsamps",
                                       "regime:last_block_shorter_than_maxdelay", "regime:maxdelay>nsamps/2", "tiling_checks", "gulp_independence_checks",
                                       "spy:extract_tim", "spy:dedisperse", "regime:reader_with_history", "regime:nchans>32_not_multiple_of_32", "held_result_checks", "regime:same_band_other_sampling_time_earlier_in_process", "regime:reductions_continuing_where_a_dedispersion_stopped", "regime:wide_band_of_bright_8bit_samples"]


def _cfg(nbits, N=97, nch=8, split=None, tsamp=1e-3):
    nchl = sigfile.legal_nchans(nbits, nch)
    return {"N": N, "nchans": nchl, "nbits": nbits, "split": split or [N], "fch1": 1500.0, "foff": -20.0 if nchl <= 16 else -float(1000 // nchl), "tsamp": tsamp}


def cases(tier, seed):
    for nbits in DEPTHS:
        cfg = _cfg(nbits)
        for op in OPS:
            for g0 in range(1, 101, 10):
                yield {"cfg": cfg, "dseed": int(seed), "runs": [[op, g, 0, 97, 40.0 if op == "dedisperse" else 0.0, 3] for g in range(g0, g0 + 10)]}
        # delays longer than half the range (required regime: produced here, not left to the random part)
        yield {"cfg": cfg, "dseed": int(seed), "runs": [["dedisperse", g, 0, 97, 150.0, 3] for g in (1, 5, 50, 96, 97, 200)]}
    # the same band and DM at another sampling time, handled earlier by the same process (delay tables are per file, not per band)
    for i, (nbits, ts2) in enumerate(((8, 5e-4), (32, 2e-3), (2, 2.5e-4))):
        yield {"cfg": _cfg(nbits, tsamp=ts2), "first": _cfg(nbits), "dseed": int(seed) + 3 + i, "runs": [["dedisperse", g, 0, 97, 40.0, 3] for g in (7, 50, 97)]}
    # segment-wise processing on one reader: a dedispersion made of full blocks only, then reductions that start where it stopped
    for i, (nbits, g, j) in enumerate(((8, 40, 2), (4, 25, 3), (32, 64, 0), (8, 33, 1))):
        yield {"cfg": _cfg(nbits, N=400), "dseed": int(seed) + 7 + i, "chain": [g, j, 25.0], "runs": []}
    for i, nchw in enumerate((2048, 1032)):
        wide = {"N": 60, "nchans": nchw, "nbits": 8, "split": [60], "fch1": 1500.0, "foff": -0.125, "tsamp": 1e-3, "bright": True}
        yield {"cfg": wide, "dseed": int(seed) + 11 + i, "wide_bright": True, "runs": [["collapse", g, 0, 60, 0.0, 0] for g in (7, 60)] + [["bandpass", 13, 0, 60, 0.0, 0], ["dedisperse", 25, 0, 60, 3.0, 0]]}
    rng = np.random.default_rng([seed, 606])
    nrand = 600 if tier == "quick" else 20000
    for k in range(nrand // 6):
        nbits = int(rng.choice(DEPTHS))
        N = int(rng.integers(30, 400 if tier == "quick" else 2000))
        nfiles = int(rng.integers(1, 4))
        cuts = sorted(rng.choice(np.arange(1, N), size=nfiles - 1, replace=False).tolist()) if nfiles > 1 else []
        split = [b - a for a, b in zip([0] + cuts, cuts + [N])]
        # channel counts beyond the usual powers of two: 33..200 exercise kernels that tile or strip-mine the channel axis
        cfg = _cfg(nbits, N, int(rng.choice([1, 4, 8, 16])) if k % 3 else int(rng.choice([33, 40, 72, 100, 200])), split)
        runs = []
        for op in OPS:
            start = int(rng.choice([0, int(rng.integers(0, N - 5))]))
            nsamps = int(rng.integers(5, N - start + 1)) if rng.random() < 0.8 else N - start
            dm = float(rng.choice([0.0, rng.uniform(0, 30), rng.uniform(0, 400)])) if op == "dedisperse" else 0.0
            gulp = int(rng.choice([1, 2, 3, 7, int(rng.integers(1, nsamps + 1)), max(1, nsamps // 3), nsamps, nsamps + 5, 10 * N]))
            runs.append([op, gulp, start, nsamps, dm, int(rng.integers(0, cfg["nchans"]))])
        yield {"cfg": cfg, "dseed": int(seed) + 17 + k, "runs": runs}


def cases_boundscheck(tier, seed):
    for i, c in enumerate(cases("quick", seed)):
        if i % 3 == 0:
            yield c


_spy = None


def setup_worker(ctx):
    global _spy
    _spy = KernelSpy(["extract_tim", "dedisperse", "extract_bpass"]).install()


def make_data(cfg, dseed):
    rng = np.random.default_rng([dseed, cfg["N"], cfg["nbits"], cfg["nchans"], 6])
    if cfg.get("bright"):       # a wide band of bright 8-bit samples: partial sums of a spectrum leave 16 bits
        return rng.integers(170, 256, size=(cfg["N"], cfg["nchans"])).astype(np.uint8)
    return sigfile.random_samples(rng, cfg["N"], cfg["nchans"], cfg["nbits"])


def _files(ctx, cfg, dseed):
    key = repr((sorted(cfg.items(), key=lambda kv: kv[0]), dseed))
    cache = ctx.notes.setdefault("_fc", {})
    if key not in cache:
        if len(cache) > 20:
            cache.clear()
        X = make_data(cfg, dseed)
        d = os.path.join(ctx.tmp, f"c{len(os.listdir(ctx.tmp))}")
        os.makedirs(d)
        paths = sigfile.write_split(d, X, cfg["nbits"], cfg["split"], tsamp=cfg["tsamp"], fch1=cfg["fch1"], foff=cfg["foff"])
        cache[key] = (X, paths)
    return cache[key]


def _call(fil, op, gulp, start, nsamps, dm, ichan):
    kw = {"gulp": gulp, "start": start, "nsamps": nsamps, "quiet": True, "description": "v"}
    if op == "collapse":
        return fil.collapse(**kw)
    if op == "bandpass":
        return fil.bandpass(**kw)
    if op == "read_chan":
        return fil.read_chan(ichan, **kw)
    if op == "dedisperse":
        if (gulp + start + nsamps) % 5 == 0:
            # the caller supplies the read buffers (documented option), and its memory is not zeroed
            _call.dirty = getattr(_call, "dirty", 0) + 1
            return fil.dedisperse(dm, allocator=lambda nbytes: bytearray(b"\x7f" * nbytes), **kw)
        return fil.dedisperse(dm, **kw)
    if op == "stats":
        fil.compute_stats(**kw)
        return fil.chan_stats
    if op == "stats_basic":
        fil.compute_stats_basic(**kw)
        return fil.chan_stats
    raise ValueError(op)


def _stats_vec(cs, basic):
    d = {"count": np.array(cs.moments["count"]), "mean": np.array(cs.mean, dtype=np.float64), "var": np.array(cs.var, dtype=np.float64),
         "min": np.array(cs.minima, dtype=np.float64), "max": np.array(cs.maxima, dtype=np.float64)}
    if not basic:
        d["skew"] = np.array(cs.skew, dtype=np.float64)
        d["kurtosis"] = np.array(cs.kurtosis, dtype=np.float64)
    return d


def run_case(case, ctx):
    from sigpyproc.readers import FilReader

    cfg = case["cfg"]
    X, paths = _files(ctx, cfg, case["dseed"])
    Xf = X.astype(np.float64)
    if case.get("wide_bright"):
        ctx.count("regime:wide_band_of_bright_8bit_samples")
    if case.get("first"):
        _, p1 = _files(ctx, case["first"], case["dseed"])
        FilReader(p1 if len(p1) > 1 else p1[0]).dedisperse(40.0, gulp=50, quiet=True, description="v")
        ctx.count("regime:same_band_other_sampling_time_earlier_in_process")
    fil = FilReader(paths if len(paths) > 1 else paths[0])
    nch = cfg["nchans"]
    runs = case["runs"]
    if case.get("chain"):
        g, j, cdm = case["chain"]
        md = int(np.asarray(fil.header.get_dmdelays(cdm)).max())
        n1 = g + j * (g - md)              # full blocks only: the plan ends on a rewind
        runs = [["dedisperse", g, 0, n1, cdm, 0], ["collapse", 7, n1, 60, 0.0, 0], ["dedisperse", g, n1 + 60, n1, cdm, 0], ["read_chan", 11, 2 * n1 + 60, 50, 0.0, 1],
                ["stats", 13, 2 * n1 + 110, 40, 0.0, 0], ["bandpass", 9, 2 * n1 + 150, 30, 0.0, 0]]
        runs = [r for r in runs if r[2] + r[3] <= cfg["N"]]
        ctx.count("regime:reductions_continuing_where_a_dedispersion_stopped")
    for irun, run in enumerate(runs):
        op, gulp, start, nsamps, dm, ichan = run[0], int(run[1]), int(run[2]), int(run[3]), float(run[4]), int(run[5]) % nch
        one = {"cfg": cfg, "dseed": case["dseed"], "runs": [run]}
        if case.get("first"):
            one["first"] = case["first"]
        if case.get("chain"):
            one = {"cfg": cfg, "dseed": case["dseed"], "chain": case["chain"], "runs": []}
            if irun:
                # the checks of the previous step end with calls at other gulps: make the previous segment's own call the last thing the reader did
                pr = runs[irun - 1]
                _call(fil, pr[0], int(pr[1]), int(pr[2]), int(pr[3]), float(pr[4]), int(pr[5]) % nch)
        seg = Xf[start : start + nsamps]
        delays, maxdelay = None, 0
        if op == "dedisperse":
            delays = np.asarray(fil.header.get_dmdelays(dm)).reshape(-1).astype(np.int64)
            maxdelay = int(delays.max())
            if delays.min() < 0 or maxdelay >= nsamps:
                ctx.skip("maxdelay>=nsamps or negative delay")
                continue
        ctx.evaluated()
        ctx.count(f"op:{op}")
        if cfg["nchans"] > 32 and cfg["nchans"] % 32:
            ctx.count("regime:nchans>32_not_multiple_of_32")
        ge = max(gulp, 2 * maxdelay) if op == "dedisperse" else gulp
        nblocks = 1 if ge >= nsamps else int(np.ceil((nsamps - maxdelay) / (ge - maxdelay)))
        regime = []
        if start + nsamps < cfg["N"]:
            ctx.count("regime:subrange_before_eof"); regime.append("subrange")
        if nblocks >= 3:
            ctx.count("regime:>=3blocks")
        if gulp > nsamps:
            ctx.count("regime:gulp>nsamps")
        if op == "dedisperse" and maxdelay:
            if gulp < 2 * maxdelay:
                ctx.count("regime:gulp<2*maxdelay")
            if 2 * maxdelay > nsamps:
                ctx.count("regime:maxdelay>nsamps/2")
            if nblocks >= 2 and 0 < (nsamps - maxdelay) % (ge - maxdelay) < maxdelay:
                ctx.count("regime:last_block_shorter_than_maxdelay")
        tag = f"{op}[{'subrange' if regime else 'to-eof' if start else 'whole'}]"
        # reader with a history: an earlier reduction over ANOTHER range of the same length (or an abandoned plan) on this reader object
        hrng = np.random.default_rng([case["dseed"], gulp, start, nsamps, 66])
        if hrng.random() < 0.35:
            other = [b for b in (0, cfg["N"] - nsamps, (cfg["N"] - nsamps) // 2) if b != start and 0 <= b <= cfg["N"] - nsamps]
            b = int(other[0]) if other else start
            kind = int(hrng.integers(0, 3))
            with np.errstate(all="ignore"):
                if kind == 0:
                    (fil.compute_stats if hrng.random() < 0.5 else fil.compute_stats_basic)(gulp=int(hrng.integers(1, cfg["N"] + 1)), start=b, nsamps=nsamps, quiet=True, description="v")
                elif kind == 1:
                    next(fil.read_plan(gulp=max(1, nsamps // 2), start=b, nsamps=nsamps, quiet=True, description="v"))
                else:
                    fil.bandpass(gulp=int(hrng.integers(1, cfg["N"] + 1)), start=b, nsamps=nsamps, quiet=True, description="v")
            ctx.count("regime:reader_with_history")
        _spy.clear()
        try:
            res = _call(fil, op, gulp, start, nsamps, dm, ichan)
        except Exception as exc:  # noqa: BLE001
            ctx.violation(f"raised:{tag}:{type(exc).__name__}@{exc_site(exc)}", f"{op}(gulp={gulp},start={start},nsamps={nsamps},dm={dm}) raised {fmt_exc(exc)}", one)
            continue
        ctx.count("spy:extract_tim", len(_spy.calls("extract_tim")))
        ctx.count("spy:dedisperse", len(_spy.calls("dedisperse")))
        if nblocks >= 2:
            ctx.nontrivial_case(one)
        # ---- oracle
        if op in ("stats", "stats_basic"):
            got = _stats_vec(res, op == "stats_basic")
            ref = refmodels.moments_two_pass(seg)
            bad = None
            if not np.all(got["count"] == nsamps):
                bad = ("count", got["count"][:4].tolist(), nsamps)
            elif not np.array_equal(got["min"], ref["min"]) or not np.array_equal(got["max"], ref["max"]):
                bad = ("minmax", got["min"][:4].tolist(), ref["min"][:4].tolist())
            else:
                for key in ("mean", "var", "skew", "kurtosis"):
                    if key not in got:
                        continue
                    w = ref[key]
                    g = got[key]
                    sel = np.isfinite(w) if key == "kurtosis" else np.ones_like(w, dtype=bool)
                    # float32 accumulation error scales with the spread of the data (same gates as C10)
                    if key == "mean":
                        scale = np.maximum(np.maximum(np.abs(w), np.sqrt(ref["var"])), 1e-30)
                    elif key == "var":
                        scale = 2 * np.maximum(np.abs(w), 1e-12)
                    else:
                        scale = 5 * np.maximum(1.0, np.abs(w))
                    if not np.all(np.isfinite(g)) or np.any(np.abs(g - w)[sel] > 2e-4 * scale[sel]):
                        bad = (key, g[:4].tolist(), w[:4].tolist())
                        break
            if bad:
                ctx.violation(f"value:{tag}:{bad[0]}", f"{op} {bad[0]}: got {bad[1]} want {bad[2]} (gulp={gulp},start={start},nsamps={nsamps},N={cfg['N']})", one)
                continue
            ref_inf = _stats_vec(_call(fil, op, 10 * cfg["N"], start, nsamps, dm, ichan), op == "stats_basic")
            ctx.count("gulp_independence_checks")
            for key in got:
                tol = 0 if key in ("count", "min", "max") else 2e-5
                sc = np.maximum(1.0, np.abs(ref_inf[key]))
                if key == "mean":
                    sc = np.maximum(sc, np.sqrt(np.maximum(ref_inf["var"], 0)))
                if key == "var":
                    sc = np.maximum(np.abs(ref_inf[key]), 1e-6 * ref_inf["mean"] ** 2 + 1e-30)
                if np.any(np.abs(got[key] - ref_inf[key]) > tol * sc):
                    ctx.violation(f"gulp-dependence:{tag}:{key}", f"{op} {key} for gulp={gulp} differs from single-block result", one)
                    break
            continue
        data = np.asarray(res.data)
        hdr_n = res.header.nsamples
        if op == "collapse":
            want = seg.sum(axis=1)
        elif op == "bandpass":
            want = (seg.sum(axis=0).astype(np.float32) / np.float32(nsamps)).astype(np.float64)
        elif op == "read_chan":
            want = seg[:, ichan]
        else:
            want = refmodels.dedisperse_sum(seg, delays, nsamps - maxdelay)
        if data.shape != want.shape:
            ctx.violation(f"length:{tag}", f"{op} returned {data.shape[0]} values, definition has {want.shape[0]} (gulp={gulp},start={start},nsamps={nsamps},maxdelay={maxdelay},N={cfg['N']})", one)
            continue
        if hdr_n != data.shape[0]:
            ctx.violation(f"header-nsamples:{tag}", f"{op} header.nsamples={hdr_n} but data length {data.shape[0]}", one)
            continue
        if op == "bandpass":
            ok = np.all(np.abs(data.astype(np.float64) - want) <= np.spacing(np.abs(want).astype(np.float32)).astype(np.float64) + 0)
        else:
            ok = np.array_equal(data.astype(np.float64), want)
        if not ok:
            idx = int(np.flatnonzero(data.astype(np.float64) != want)[0])
            ctx.violation(f"value:{tag}", f"{op} differs from definition first at output {idx}: got {data[idx]!r} want {want[idx]!r} (gulp={gulp},start={start},nsamps={nsamps},maxdelay={maxdelay},nblocks={nblocks})", one)
            continue
        # ---- exactly-once tiling of the output by kernel calls
        if op in ("collapse", "dedisperse"):
            calls = _spy.calls("extract_tim" if op == "collapse" else "dedisperse")
            if op == "collapse":
                iv = [(int(c[5]), int(c[5]) + int(c[4])) for c in calls]
            else:
                iv = [(int(c[7]), int(c[7]) + int(c[6]) - int(c[4])) for c in calls]
            iv = [(lo, hi) for lo, hi in iv if hi > lo]
            ctx.count("tiling_checks")
            msg = tiles_exactly_once(iv, want.shape[0])
            if msg:
                ctx.violation(f"tiling:{tag}", f"kernel output intervals do not tile the output exactly once: {msg}; intervals {iv[:8]}", one)
                continue
        # ---- gulp independence, bit for bit
        held_before = data.tobytes()
        ref_inf = np.asarray(_call(fil, op, 10 * cfg["N"], start, nsamps, dm, ichan).data)
        ctx.count("gulp_independence_checks")
        if ref_inf.shape != data.shape or ref_inf.tobytes() != data.tobytes():
            ctx.violation(f"gulp-dependence:{tag}", f"{op} for gulp={gulp} differs bit-wise from the single-block result", one)
            continue
        # ---- a result that was handed out stays what it was while the same reader streams other ranges
        try:
            fil.collapse(gulp=max(1, nsamps // 3), start=max(0, start - 1), nsamps=max(1, nsamps - 1), quiet=True, description="v")
        except Exception:  # noqa: BLE001
            pass
        ctx.count("held_result_checks")
        if np.asarray(res.data).tobytes() != held_before or np.asarray(ref_inf).tobytes() != held_before:
            ctx.violation(f"earlier-result-changed-by-later-call:{op}", f"the array returned by {op}(gulp={gulp},start={start},nsamps={nsamps}) changed when the same reader streamed another range afterwards", one)
            continue
        if ctx.evaluations % 400 == 1:
            ctx.sample({"cfg": cfg, "op": op, "gulp": gulp, "start": start, "nsamps": nsamps, "dm": dm, "maxdelay": maxdelay, "nblocks": nblocks,
                        "kernel_calls": [list(map(lambda v: v if not isinstance(v, tuple) else list(v), c)) for c in _spy.log[:4]]})
