"""C08 - output metadata describes the output data.

Input samples carry labels: value(t, c) = 64*t + c (float32, exact), so the
monitor can read off which input rows (time index, channel) are actually
present in every output and compare them with what the output header says.
"""
from __future__ import annotations

import os
from fractions import Fraction

import numpy as np

from vlib import sigfile
from vlib.core import exc_site, fmt_exc

AUDIT_INPUT_FILES = True   # after every case the driver verifies that the synthesised input files still hold their bytes
PROPERTY = "C08"
LEVEL = "exploration"
CLAIM = {
    "text": "Exploration by runtime monitoring: every API that returns a container or writes a file (read_block incl. fch1=/nchans=, read_dedisp_block, collapse, bandpass, read_chan, dedisperse, invert_freq, downsample, extract_samps/chans/bands, subband, apply_channel_mask, remove_zerodm, FilterbankBlock.downsample/dedisperse/get_tim/to_file, TimeSeries.downsample/pad/to_tim) is driven over six channelisations (foff of either sign, non-dyadic widths, non-representable fch1) with random sub-ranges and parameters on inputs whose samples are labelled 64*t+c; the monitor decodes which input time indices and channels are present in the output and checks the output header's nsamples/nchans/nbits/tsamp/tstart (5 us, exact rational reference)/dm and per-channel frequency labels against them. Regimes added: observations crossing UTC midnight, unsorted adjacent channel runs with small batch sizes; input files are re-hashed after every case. Rounds 7-8 added: PulseExtractor windows near the start, middle and end of the file and pad_samples with front padding, up to 32 sub-bands, dedispersed blocks in which channels arrive before the first one (negative DM / ascending band), and a channel window one past the band. Round 11 added: the .tim products of an 8-bit observation (collapse/read_chan/dedisperse -> to_tim) judged on declared depth, sample count and read-back.",
    "design_ref": "DESIGN.md section 3 (C08)",
    "note": "Trusted: fractions.Fraction for the tstart reference, vlib/sigfile.py parser, float64 label decoding (values < 2^24). tstart is judged for every product of a sub-range (start > 0). Labels of summed/averaged channels must lie within the closed span of the contributing input channel centres.",
    "technique": "runtime monitoring: labelled-sample provenance oracle (decode which input rows are in the output) vs output header fields",
}
ASSUMPTIONS = ["float32 chan_freqs precision: labels compared to 1e-3*|foff| + 4 ulp(float32) of the frequency",
               "bandpass is a frequency-domain product: tstart not judged"]
RULE = ("all APIs x channelisations {(-4,1500),(-0.1,1500.1),(-1/3,1234.5678),(+0.1,1400.05),(-0.390625,1510.3),(2pi/100,800.7)} x nchans {8,16,64} x "
        "random (start,nsamps,params); non-trivial = start>0 or a non-identity parameter; distinct = distinct case record")
CHANNELISATIONS = [(-4.0, 1500.0), (-0.1, 1500.1), (-1.0 / 3.0, 1234.5678), (0.1, 1400.05), (-0.390625, 1510.3), (2 * np.pi / 100, 800.7)]
NARROW = (-5.0e-5, 1420.4057)     # 50 Hz channels at the HI line: single precision cannot tell neighbouring channels apart
APIS = ("read_block", "read_block_fch1", "read_dedisp_block", "collapse", "bandpass", "read_chan", "dedisperse", "invert_freq", "downsample",
        "extract_samps", "extract_chans", "extract_bands", "subband", "apply_channel_mask", "remove_zerodm",
        "block_downsample", "block_dedisperse", "block_get_tim", "block_to_file", "block_pad_samples", "ts_downsample", "ts_pad", "ts_to_tim", "ts_to_dat", "plain_copy",
        "pulse_extractor")
TSAMP = 6.4e-5
TSTART = 58123.456789012345


def REQUIRED(tier):
    return [f"api:{a}" for a in APIS] + ["tstart_checks", "label_checks", "shape_checks", "foff>0", "start>0", "regime:crosses_utc_midnight", "regime:remainder_longer_than_output", "ts_to_dat:odd_length", "regime:block_padded_in_front", "regime:block_padded_behind", "regime:channels_arriving_before_the_first", "probe:channel_window_one_past_the_band", "tim_products_of_an_8bit_observation"]


def cases(tier, seed):
    rng = np.random.default_rng([seed, 808])
    reps = 25 if tier == "quick" else 300
    k = 0
    for i in range(6 if tier == "quick" else 60):
        k += 1
        yield {"api": "extract_chans", "chan": -1, "nchans": int(rng.choice([8, 16, 64])), "N": int(rng.integers(60, 200)), "nfiles": 1, "pseed": int(seed) * 100003 + 900000 + i}
    for api in APIS:
        for ci in range(len(CHANNELISATIONS)):
            for _ in range(reps):
                k += 1
                yield {"api": api, "chan": ci, "nchans": int(rng.choice([8, 16, 64])), "N": int(rng.integers(60, 200)),
                       "nfiles": int(rng.choice([1, 1, 2])), "pseed": int(seed) * 100003 + k}


def _tstart_for(case):
    """Most files start mid-day; one in four starts a few samples before UTC midnight so that sub-ranges begin on the next day."""
    if case["pseed"] % 4 == 3:
        return 58000.0 + 1.0 - (case["N"] // 3) * TSAMP / 86400.0
    return TSTART


def _input(ctx, case):
    key = (case["chan"], case["nchans"], case["N"], case["nfiles"], _tstart_for(case))
    cache = ctx.notes.setdefault("_fc", {})
    if key not in cache:
        if len(cache) > 30:
            cache.clear()
        foff, fch1 = CHANNELISATIONS[case["chan"]] if case["chan"] >= 0 else NARROW
        N, nch = case["N"], case["nchans"]
        X = (64.0 * np.arange(N)[:, None] + np.arange(nch)[None, :]).astype(np.float32)
        d = os.path.join(ctx.tmp, f"i{len(os.listdir(ctx.tmp))}")
        os.makedirs(d)
        split = [N] if case["nfiles"] == 1 else [N // 3, N - N // 3]
        # every other input already carries a reference DM in its header (a sub-banded or pipeline-tagged file)
        paths = sigfile.write_split(d, X, 32, split, tsamp=TSAMP, tstart=_tstart_for(case), fch1=fch1, foff=foff, **({"refdm": 12.5} if case["pseed"] % 2 else {}))
        cache[key] = (X, paths, d)
    return cache[key]


def _freq(fch1, foff, c):
    return fch1 + foff * c


_cur = {"tstart": TSTART}


def _tstart_ref(t0):
    """Exact rational MJD of input sample t0."""
    return Fraction(_cur["tstart"]) + Fraction(TSAMP) * t0 / 86400


class Check:
    def __init__(self, ctx, case, api):
        self.ctx, self.case, self.api = ctx, case, api
        self.ok = True

    def fail(self, what, msg):
        self.ok = False
        self.ctx.violation(f"{what}:{self.api}", msg, self.case)

    def shape(self, hdr, nsamples, nchans):
        self.ctx.count("shape_checks")
        if hdr.nsamples != nsamples:
            self.fail("nsamples", f"header.nsamples={hdr.nsamples}, data has {nsamples}")
        if nchans is not None and hdr.nchans != nchans:
            self.fail("nchans", f"header.nchans={hdr.nchans}, data has {nchans}")

    def tstart(self, hdr, t0, regime):
        self.ctx.count("tstart_checks")
        want = _tstart_ref(t0)
        err_us = abs(float(Fraction(hdr.tstart) - want)) * 86400e6
        if err_us > 5.0:
            self.fail(f"tstart[{regime}]", f"header.tstart={hdr.tstart!r}; first output sample is input sample {t0} -> {float(want)!r} (off by {err_us:.1f} us)")

    def tsamp(self, hdr, factor):
        if abs(hdr.tsamp - TSAMP * factor) > 1e-12 * TSAMP * factor:
            self.fail("tsamp", f"header.tsamp={hdr.tsamp!r}, expected {TSAMP*factor!r} (factor {factor})")

    def dm(self, got, want):
        if abs(float(got) - want) > 1e-6 * max(1.0, abs(want)):
            self.fail("dm", f"recorded dm={got!r}, applied {want!r}")

    def labels(self, hdr, groups, fin, foff_in, spacing_factor=None, kind="copy"):
        """groups[j] = list of input channel indices that contribute to output channel j."""
        self.ctx.count("label_checks")
        tol = 1e-3 * abs(foff_in) + 4 * np.spacing(np.float32(abs(fin)) + np.float32(abs(foff_in) * 64))
        out_freqs = np.asarray(hdr.chan_freqs, dtype=np.float64)
        if len(out_freqs) != len(groups):
            self.fail("labels-count", f"{len(out_freqs)} labels for {len(groups)} output channels")
            return
        for j, g in enumerate(groups):
            fr = [_freq(fin, foff_in, c) for c in g]
            lo, hi = min(fr) - tol, max(fr) + tol
            if not (lo <= out_freqs[j] <= hi):
                self.fail(f"label[{kind}]", f"output channel {j} labelled {out_freqs[j]:.6f} MHz but holds input channel(s) {g[:4]}{'...' if len(g) > 4 else ''} "
                          f"with centres in [{min(fr):.6f},{max(fr):.6f}] (foff_in={foff_in}, out fch1={hdr.fch1!r}, out foff={hdr.foff!r})")
                return
        if spacing_factor is not None and len(groups) > 1:
            if abs(hdr.foff - foff_in * spacing_factor) > 1e-9 * abs(foff_in * spacing_factor) + 1e-12:
                self.fail("foff", f"header.foff={hdr.foff!r}, expected {foff_in*spacing_factor!r} (= {spacing_factor} x input spacing)")

    def nbits_file(self, path, want_nbits, nch, n):
        d, hl, raw = sigfile.parse_file(path)
        if d["nbits"] != want_nbits or len(raw) * 8 != n * nch * d["nbits"]:
            self.fail("nbits", f"file declares nbits={d['nbits']} with {len(raw)} data bytes for {n}x{nch} samples (expected depth {want_nbits})")


def _decode(v):
    """Label decode: value = 64*t + c."""
    v = np.asarray(v, dtype=np.float64)
    return (v // 64).astype(np.int64), (v % 64).astype(np.int64)


def run_case(case, ctx):
    from sigpyproc.block import FilterbankBlock
    from sigpyproc.readers import FilReader
    from sigpyproc.timeseries import TimeSeries

    api = case["api"]
    foff, fch1 = CHANNELISATIONS[case["chan"]] if case["chan"] >= 0 else NARROW
    X, paths, d = _input(ctx, case)
    _cur["tstart"] = _tstart_for(case)
    if _cur["tstart"] != TSTART:
        ctx.count("regime:crosses_utc_midnight")
    N, nch = case["N"], case["nchans"]
    rng = np.random.default_rng([case["pseed"], 3])
    fil = FilReader(paths if len(paths) > 1 else paths[0])
    start = int(rng.choice([0, int(rng.integers(1, N // 2))], p=[0.25, 0.75]))
    nsamps = int(rng.integers(N // 4, N - start + 1))
    gulp = int(rng.choice([7, 16, N, 10 * N]))
    kw = {"gulp": gulp, "start": start, "nsamps": nsamps, "quiet": True, "description": "v"}
    case = dict(case, start=start, nsamps=nsamps, gulp=gulp)
    ck = Check(ctx, case, api)
    ctx.evaluated()
    ctx.count(f"api:{api}")
    if foff > 0:
        ctx.count("foff>0")
    if start > 0:
        ctx.count("start>0")
    reg = "start>0" if start > 0 else "start=0"
    out = os.path.join(d, f"o{case['pseed']}.fil")
    allch = [[c] for c in range(nch)]
    nontriv = start > 0
    try:
        if api == "plain_copy":
            # an 8-bit observation: first a 32-bit product of it (collapse().to_tim()), then a plain copy through header.prep_outfile(name)
            # with no further arguments.  The copy's header must state the depth its samples are written with.
            X8 = (np.arange(nsamps * nch).reshape(nsamps, nch) % 251).astype(np.uint8)
            p8 = os.path.join(d, f"i8_{case['pseed']}.fil")
            sigfile.write_fil(p8, X8, 8, tsamp=TSAMP, tstart=TSTART, fch1=fch1, foff=foff)
            f8 = FilReader(p8)
            f8.collapse(quiet=True, description="v").to_tim(os.path.join(d, f"t8_{case['pseed']}.tim"))
            # the time-series products of the 8-bit observation are 32-bit files: each .tim must declare the depth its samples were written
            # with, hold one sample per input sample and read back as the series that was written
            for how in ("collapse", "read_chan", "dedisperse"):
                ser = {"collapse": lambda: f8.collapse(quiet=True, description="v"), "read_chan": lambda: f8.read_chan(nch // 2, quiet=True, description="v"),
                       "dedisperse": lambda: f8.dedisperse(0.0, quiet=True, description="v")}[how]()
                tp = ser.to_tim(os.path.join(d, f"t8{how}_{case['pseed']}.tim"))
                ctx.count("tim_products_of_an_8bit_observation")
                td, thl, traw = sigfile.parse_file(tp)
                want = np.asarray(ser.data, dtype=np.float32)
                if td["nbits"] * want.size != 8 * len(traw):
                    ctx.violation(f"nbits[tim-product-of-8bit-observation:{how}]", f"{how}().to_tim(): header says nbits={td['nbits']}, {len(traw)} data bytes hold {want.size} samples", case)
                    return
                back = TimeSeries.from_tim(tp)
                if back.header.nsamples != want.size or not np.array_equal(np.asarray(back.data, dtype=np.float32), want):
                    ctx.violation(f"readback[tim-product-of-8bit-observation:{how}]", f"{how}().to_tim() re-opened: {back.header.nsamples} samples (nbits {back.header.nbits}) for {want.size} written, or other values", case)
                    return
                os.unlink(tp)
            fw = f8.header.prep_outfile(out)
            try:
                fw.cwrite(X8.ravel())
            finally:
                fw.close()
            dd, hl, raw = sigfile.parse_file(out)
            ctx.count("shape_checks")
            if dd["nbits"] != 8 or dd["nchans"] != nch or len(raw) != nsamps * nch:
                ctx.violation("nbits[plain-copy-after-other-products]", f"copy written through header.prep_outfile(name): header says nbits={dd['nbits']} nchans={dd['nchans']}, {len(raw)} data bytes hold {nsamps}x{nch} 8-bit samples", case)
                return
            o = FilReader(out)
            ck.shape(o.header, nsamps, nch)
            nontriv = True
        elif api == "read_block":
            b = fil.read_block(start, nsamps)
            t, c = _decode(b.data)
            ck.shape(b.header, b.data.shape[1], b.data.shape[0])
            ck.tstart(b.header, int(t[0, 0]), reg)
            ck.labels(b.header, [[int(c[j, 0])] for j in range(b.data.shape[0])], fch1, foff)
        elif api == "read_block_fch1":
            k = int(rng.integers(0, nch))
            m = int(rng.integers(1, nch - k + 1))
            fk = float(fil.header.chan_freqs[k]) if rng.random() < 0.5 else _freq(fch1, foff, k)
            case = dict(case, k=k, m=m, fk=fk); ck.case = case
            nontriv = True
            if case["pseed"] % 4 == 1:
                # a window that overruns the band by exactly one channel: refused, or at least described by a header that matches the rows returned
                ctx.count("probe:channel_window_one_past_the_band")
                try:
                    bo = fil.read_block(start, nsamps, fch1=fk, nchans=nch - k + 1)
                    ck.shape(bo.header, bo.data.shape[1], bo.data.shape[0])
                except ValueError:
                    pass
            b = fil.read_block(start, nsamps, fch1=fk, nchans=m)
            t, c = _decode(b.data)
            ck.shape(b.header, b.data.shape[1], b.data.shape[0])
            if b.data.shape[0] != m:
                ck.fail("nchans-returned", f"asked {m} channels from channel {k}, got {b.data.shape[0]}")
            elif int(c[0, 0]) != k:
                ck.fail("first-channel", f"requested fch1={fk!r} (= channel {k}, foff={foff}) but block starts at input channel {int(c[0,0])}")
            ck.labels(b.header, [[int(c[j, 0])] for j in range(b.data.shape[0])], fch1, foff)
            ck.tstart(b.header, int(t[0, 0]), reg)
        elif api == "read_dedisp_block":
            dm = float(rng.uniform(0, 3)) if foff < 0 else 0.0
            if case["pseed"] % 3 == 0:
                # channels that arrive before the first one (negative trial DM, or a band stored in ascending order): the block's clock is still
                # that of its first channel at sample `start`
                dm = -float(rng.uniform(0.2, 3)) if foff < 0 else float(rng.uniform(0.2, 3))
            delays = np.asarray(fil.header.get_dmdelays(dm)).reshape(-1)
            if delays.min() < 0:
                start = max(start, int(-delays.min()))
                ctx.count("regime:channels_arriving_before_the_first")
            n2 = max(1, min(nsamps, N - start - max(0, int(delays.max())) - 1))
            if n2 < 2:
                ctx.skip("read_dedisp_block out of range"); return
            reg = "start>0" if start > 0 else "start=0"
            case = dict(case, dm=dm, start=start); ck.case = case
            b = fil.read_dedisp_block(start, n2, dm)
            ck.shape(b.header, b.data.shape[1], b.data.shape[0])
            ck.tstart(b.header, start, reg)
            ck.dm(b.dm, dm)
            ck.labels(b.header, allch, fch1, foff)
        elif api == "collapse":
            ts = fil.collapse(**kw)
            ck.shape(ts.header, ts.data.size, 1)
            t0 = int(round((float(ts.data[0]) - nch * (nch - 1) / 2) / (64 * nch)))
            ck.tstart(ts.header, t0, reg)
            ck.dm(ts.header.dm, 0.0)
            ck.labels(ts.header, [list(range(nch))], fch1, foff, kind="sum")
        elif api == "bandpass":
            ts = fil.bandpass(**kw)
            ck.shape(ts.header, ts.data.size, None)
        elif api == "read_chan":
            ic = int(rng.integers(0, nch))
            case = dict(case, ichan=ic); ck.case = case
            ts = fil.read_chan(ic, **kw)
            t, c = _decode(ts.data)
            ck.shape(ts.header, ts.data.size, 1)
            ck.tstart(ts.header, int(t[0]), reg)
            ck.labels(ts.header, [[int(c[0])]], fch1, foff)
            ck.dm(ts.header.dm, 0.0)     # a single channel carries no dispersion correction, whatever the input's header says
        elif api == "dedisperse":
            dm = float(rng.uniform(0, 3)) if foff < 0 else 0.0
            delays = np.asarray(fil.header.get_dmdelays(dm)).reshape(-1)
            if delays.min() < 0 or delays.max() >= nsamps:
                ctx.skip("dedisperse out of domain"); return
            case = dict(case, dm=dm); ck.case = case
            ts = fil.dedisperse(dm, **kw)
            ck.shape(ts.header, ts.data.size, 1)
            ck.tstart(ts.header, start, reg)
            ck.dm(ts.header.dm, dm)
            nontriv = nontriv or dm > 0
        elif api == "invert_freq":
            fil.invert_freq(out, **kw)
            o = FilReader(out)
            b = o.read_block(0, o.header.nsamples)
            t, c = _decode(b.data)
            ck.shape(o.header, nsamps, nch)
            ck.tstart(o.header, int(t[0, 0]), reg)
            ck.labels(o.header, [[int(c[j, 0])] for j in range(nch)], fch1, foff, spacing_factor=-1, kind="reversed")
            ck.nbits_file(out, o.header.nbits, nch, nsamps)
            nontriv = True
        elif api == "downsample":
            tf = int(rng.choice([1, 2, 3, 5]))
            ff = int(rng.choice([f for f in (1, 2, 4) if nch % f == 0]))
            case = dict(case, tfactor=tf, ffactor=ff); ck.case = case
            fil.downsample(tf, ff, out, **kw)
            o = FilReader(out)
            n_out = nsamps // tf
            ck.shape(o.header, n_out, nch // ff)
            ck.tsamp(o.header, tf)
            b = o.read_block(0, o.header.nsamples)
            # mean of labels: 64*mean(t) + mean(c)
            t_first = (float(b.data[0, 0]) - (ff - 1) / 2) / 64 - (tf - 1) / 2
            ck.tstart(o.header, int(round(t_first)), reg)
            ck.labels(o.header, [list(range(j * ff, (j + 1) * ff)) for j in range(nch // ff)], fch1, foff, spacing_factor=ff, kind="average")
            ck.nbits_file(out, 32, nch // ff, n_out)
            nontriv = nontriv or tf > 1 or ff > 1
        elif api == "extract_samps":
            fil.extract_samps(start, nsamps, out, gulp=gulp, quiet=True, description="v")
            o = FilReader(out)
            b = o.read_block(0, o.header.nsamples)
            t, c = _decode(b.data)
            ck.shape(o.header, nsamps, nch)
            ck.tstart(o.header, int(t[0, 0]), reg)
            ck.labels(o.header, [[int(c[j, 0])] for j in range(nch)], fch1, foff, spacing_factor=1)
        elif api == "extract_chans":
            chans = rng.choice(nch, size=2, replace=False)
            case = dict(case, chans=chans.tolist()); ck.case = case
            chans = rng.choice(nch, size=int(rng.integers(2, 5)), replace=False)
            if rng.random() < 0.3:   # an unsorted run of adjacent channels
                a0 = int(rng.integers(0, nch - 4))
                chans = np.array([a0, a0 + 2, a0 + 1, a0 + 3])
            bs = int(rng.choice([200, 1, 2, 4]))
            case = dict(case, chans=chans.tolist(), batch_size=bs); ck.case = case
            names = fil.extract_chans(chans, os.path.join(d, f"oc{case['pseed']}"), batch_size=bs, **kw)
            labs = []
            for name, chn in zip(names, chans):
                ts = TimeSeries.from_tim(name)
                t, c = _decode(ts.data)
                ck.shape(ts.header, nsamps, 1)
                ck.tstart(ts.header, int(t[0]), reg)
                ck.labels(ts.header, [[int(c[0])]], fch1, foff)
                ck.nbits_file(name, 32, 1, nsamps)
                labs.append((int(c[0]), float(ts.header.fch1)))
                os.unlink(name)
            # the single-channel products of one call are labelled on one grid: label differences are whole multiples of the channel width
            ctx.count("label_grid_checks")
            for (c1, f1_), (c2, f2_) in zip(labs, labs[1:]):
                if abs((f2_ - f1_) - (c2 - c1) * foff) > 1e-3 * abs(foff):
                    ctx.violation("label[copy]:extract_chans:grid", f"channels {c1} and {c2} are labelled {f1_!r} and {f2_!r} MHz: {(f2_ - f1_) / foff:.4f} channel widths apart instead of {c2 - c1} (foff={foff})", case)
                    return
            nontriv = True
        elif api == "extract_bands":
            cps = int(rng.choice([2, 4]))
            nb = int(rng.integers(1, nch // cps + 1))
            cs = int(rng.integers(0, nch - nb * cps + 1))
            case = dict(case, chanstart=cs, nbands=nb, chanpersub=cps); ck.case = case
            bs = int(rng.choice([200, 1, 2, 3]))
            case = dict(case, batch_size=bs); ck.case = case
            names = fil.extract_bands(cs, nb * cps, cps, os.path.join(d, f"ob{case['pseed']}"), batch_size=bs, **kw)
            for name in names:
                o = FilReader(name)
                b = o.read_block(0, o.header.nsamples)
                t, c = _decode(b.data)
                ck.shape(o.header, nsamps, cps)
                ck.tstart(o.header, int(t[0, 0]), reg)
                ck.labels(o.header, [[int(c[j, 0])] for j in range(b.data.shape[0])], fch1, foff, spacing_factor=1)
                os.unlink(name)
            nontriv = True
        elif api == "subband":
            nsub = int(rng.choice([s for s in (1, 2, 4, 8, 16, 32) if nch % s == 0]))    # incl. many narrow sub-bands (more sub-bands than channels in each)
            dm = float(rng.uniform(0, 3)) if foff < 0 else 0.0
            delays = np.asarray(fil.header.get_dmdelays(dm)).reshape(-1)
            if delays.min() < 0 or delays.max() >= nsamps:
                ctx.skip("subband out of domain"); return
            case = dict(case, dm=dm, nsub=nsub); ck.case = case
            fil.subband(dm, nsub, out, **kw)
            o = FilReader(out)
            n_out = nsamps - int(delays.max())
            ck.shape(o.header, n_out, nsub)
            ck.dm(o.header.dm, dm)
            ck.tstart(o.header, start, reg)
            f = nch // nsub
            ck.labels(o.header, [list(range(s * f, (s + 1) * f)) for s in range(nsub)], fch1, foff, spacing_factor=f, kind="sum")
            ck.nbits_file(out, 32, nsub, n_out)
            nontriv = True
        elif api == "apply_channel_mask":
            mask = rng.random(nch) < 0.3
            mask[0] = False
            fil.apply_channel_mask(mask, 0, out, **kw)
            o = FilReader(out)
            b = o.read_block(0, o.header.nsamples)
            t, c = _decode(b.data)
            ck.shape(o.header, nsamps, nch)
            ck.tstart(o.header, int(t[0, 0]), reg)
            ck.labels(o.header, [[int(c[j, 0])] if not mask[j] else [j] for j in range(nch)], fch1, foff, spacing_factor=1)
        elif api == "remove_zerodm":
            fil.remove_zerodm(out, **kw)
            o = FilReader(out)
            ck.shape(o.header, nsamps, nch)
            ck.tstart(o.header, start, reg)
            ck.labels(o.header, allch, fch1, foff, spacing_factor=1)
        elif api == "pulse_extractor":
            from sigpyproc.readers import PulseExtractor

            if len(paths) > 1:
                ctx.skip("PulseExtractor takes a single file"); return
            width = int(rng.choice([1, 2, 3, 4]))
            dm = float(rng.uniform(0, 3)) if foff < 0 else 0.0
            where = str(rng.choice(["near_start", "middle", "near_end"]))
            toa = {"near_start": int(rng.integers(0, 6)), "middle": N // 2, "near_end": N - 1 - int(rng.integers(0, 6))}[where]
            pe = PulseExtractor(paths[0], toa, width, dm, min_nsamps=int(rng.choice([8, 16, 24])))
            case = dict(case, toa=toa, width=width, dm=dm, where=where); ck.case = case
            ctx.count(f"pulse_window:{where}")
            b = pe.get_data(pad_mode=str(rng.choice(["median", "mean"])))
            ck.shape(b.header, b.data.shape[1], b.data.shape[0])
            if b.data.shape[1] != pe.nsamps:
                ck.fail("pulse-window-length", f"block of {b.data.shape[1]} samples, window is {pe.nsamps}")
            # the columns that hold file samples: sample index decoded from the labels, the rest is padding
            t, c = _decode(b.data)
            lo, hi = max(0, -pe.nstart), min(pe.nsamps, N - pe.nstart)
            real = t[0, lo:hi] - np.arange(lo, hi)
            if hi <= lo or np.any(real != pe.nstart):
                ck.fail("pulse-window-content", f"window [{pe.nstart}, {pe.nstart + pe.nsamps}) of a {N}-sample file: the block's columns {lo}..{hi} do not hold file samples {pe.nstart + lo}..{pe.nstart + hi}")
            else:
                if pe.nstart < 0:
                    ctx.count("regime:block_padded_in_front")
                if pe.nstart + pe.nsamps > N:
                    ctx.count("regime:block_padded_behind")
                ck.tstart(b.header, int(pe.nstart), f"{reg}:padded-front" if pe.nstart < 0 else reg)    # column 0 of the block is file sample nstart (possibly before the file)
            ck.labels(b.header, [[int(c[j, lo])] for j in range(b.data.shape[0])], fch1, foff)
            nontriv = True
        elif api.startswith("block_"):
            b = fil.read_block(start, nsamps)
            if api == "block_pad_samples":
                off = int(rng.choice([0, 0, int(rng.integers(1, 40))]))
                nfin = nsamps + off + int(rng.integers(0, 40))
                case = dict(case, offset=off, nsamps_final=nfin); ck.case = case
                b2 = b.pad_samples(nfin, off, pad_mode=str(rng.choice(["median", "mean"])))
                ck.shape(b2.header, b2.data.shape[1], b2.data.shape[0])
                t, c = _decode(b2.data[:, off : off + nsamps])
                if b2.data.shape[1] != nfin or np.any(t[0] != start + np.arange(nsamps)):
                    ck.fail("pad-content", f"pad_samples({nfin}, {off}): the input block is not at columns {off}..{off + nsamps}")
                else:
                    if off:
                        ctx.count("regime:block_padded_in_front")
                    ck.tstart(b2.header, start - off, f"{reg}:padded-front" if off else reg)   # column 0 lies off samples before the block's first sample
                ck.labels(b2.header, allch, fch1, foff)
                nontriv = True
            elif api == "block_downsample":
                tf = int(rng.choice([1, 2, 3, 7, 32, 50]))      # incl. factors leaving a remainder longer than the output
                ff = int(rng.choice([f for f in (1, 2, 4) if nch % f == 0] + [3, 5, 12]))
                if nsamps % tf >= nsamps // tf or nch % ff >= nch // ff:
                    ctx.count("regime:remainder_longer_than_output")
                case = dict(case, tfactor=tf, ffactor=ff); ck.case = case
                b2 = b.downsample(ffactor=ff, tfactor=tf)
                ck.shape(b2.header, b2.data.shape[1], b2.data.shape[0])
                ck.tsamp(b2.header, tf)
                ck.labels(b2.header, [list(range(j * ff, (j + 1) * ff)) for j in range(nch // ff)], fch1, foff, spacing_factor=ff, kind="average")
                ck.tstart(b2.header, start, reg)
                nontriv = nontriv or tf > 1 or ff > 1
            elif api == "block_dedisperse":
                dm = float(rng.uniform(0, 3))
                valid = bool(rng.random() < 0.5)
                case = dict(case, dm=dm, valid=valid); ck.case = case
                try:
                    b2 = b.dedisperse(dm, only_valid_samples=valid)
                except ValueError:
                    ctx.skip("block too short for valid-samples dedispersion"); return
                ck.shape(b2.header, b2.data.shape[1], b2.data.shape[0])
                ck.dm(b2.dm, dm)
                t, c = _decode(b2.data)
                ck.labels(b2.header, [[int(c[j, 0])] for j in range(b2.data.shape[0])], fch1, foff, spacing_factor=1)
                nontriv = True
            elif api == "block_get_tim":
                dm = float(rng.uniform(0, 3))
                b2 = b.dedisperse(dm)
                ts = b2.get_tim()
                ck.shape(ts.header, ts.data.size, 1)
                ck.dm(ts.header.dm, dm)
                ck.tstart(ts.header, start, reg)
                nontriv = True
            elif api == "block_to_file":
                # the same block in the memory layouts blocks come in: read_block's transposed view, a C-contiguous array (user arrays,
                # pad_samples, read_dedisp_block, valid-samples dedispersion), a Fortran-ordered copy
                from sigpyproc.block import FilterbankBlock

                lay = case["pseed"] % 4
                if lay == 1:
                    b = FilterbankBlock(np.ascontiguousarray(b.data), b.header)
                elif lay == 2:
                    b = fil.read_dedisp_block(start, nsamps, 0.0)
                elif lay == 3:
                    b = FilterbankBlock(np.asfortranarray(np.array(b.data, copy=True)), b.header)
                ctx.count(f"block_to_file:layout{lay}:{'C' if b.data.flags['C_CONTIGUOUS'] else 'F' if b.data.flags['F_CONTIGUOUS'] else 'strided'}")
                held = np.array(b.data, copy=True)
                b.to_file(out)
                o = FilReader(out)
                ck.shape(o.header, nsamps, nch)
                bb = o.read_block(0, o.header.nsamples)
                if bb.data.shape != held.shape or not np.array_equal(np.asarray(bb.data), held):
                    ctx.violation(f"label[block_to_file]:channel-rows-scrambled", f"the file written from a {'C' if b.data.flags['C_CONTIGUOUS'] else 'non-C'}-contiguous block does not hold block[c, t] at channel c, sample t (header labels then describe other data)", case)
                    return
                t, c = _decode(bb.data)
                ck.tstart(o.header, int(t[0, 0]), reg)
                ck.labels(o.header, [[int(c[j, 0])] for j in range(nch)], fch1, foff, spacing_factor=1)
                ck.nbits_file(out, 32, nch, nsamps)
        elif api.startswith("ts_"):
            ts = fil.read_chan(0, **kw)
            if api == "ts_downsample":
                f = int(rng.choice([2, 3, 7]))
                case = dict(case, factor=f); ck.case = case
                t2 = ts.downsample(f)
                ck.shape(t2.header, t2.data.size, 1)
                ck.tsamp(t2.header, f)
                nontriv = True
            elif api == "ts_pad":
                npad = int(rng.integers(1, 50))
                t2 = ts.pad(npad)
                ck.shape(t2.header, t2.data.size, 1)
                if t2.data.size != nsamps + npad:
                    ck.fail("pad-length", f"padded length {t2.data.size} != {nsamps}+{npad}")
                nontriv = True
            elif api == "ts_to_tim":
                name = ts.to_tim(os.path.join(d, f"t{case['pseed']}.tim"))
                t2 = TimeSeries.from_tim(name)
                ck.shape(t2.header, nsamps, 1)
                t, c = _decode(t2.data)
                ck.tstart(t2.header, int(t[0]), reg)
                ck.nbits_file(name, 32, 1, nsamps)
                os.unlink(name)
            elif api == "ts_to_dat":
                # presto pair: the .inf describes the .dat (number of bins == samples held), odd lengths included
                base = os.path.join(d, f"p{case['pseed']}")
                ts.to_dat(base)
                t2 = TimeSeries.from_dat(base + ".dat")
                ck.shape(t2.header, nsamps, 1)
                if t2.data.size != nsamps or os.path.getsize(base + ".dat") != 4 * nsamps:
                    ctx.violation("shape:ts_to_dat", f"to_dat of {nsamps} samples: .dat holds {os.path.getsize(base + '.dat') // 4}, from_dat returns {t2.data.size} (the .inf declares {t2.header.nsamples})", case)
                    return
                if nsamps % 2:
                    ctx.count("ts_to_dat:odd_length")
        else:
            raise ValueError(api)
    except Exception as exc:  # noqa: BLE001
        sign = "foff>0" if foff > 0 else "foff<0"
        ctx.violation(f"raised:{api}[{sign}]:{type(exc).__name__}@{exc_site(exc)}", f"{api} raised {fmt_exc(exc)} (foff={foff}, fch1={fch1}, start={start}, nsamps={nsamps})", case)
        return
    finally:
        if os.path.exists(out):
            os.unlink(out)
    if nontriv:
        ctx.nontrivial_case(case)
    if ck.ok and ctx.evaluations % 40 == 1:
        ctx.sample({"case": case, "foff": foff, "fch1": fch1})
