"""C16 - RFI cleaning masks exactly the flagged channels and nothing else."""
from __future__ import annotations

import os

import numpy as np

from vlib import sigfile
from vlib.core import exc_site, fmt_exc

AUDIT_INPUT_FILES = True   # after every case the driver verifies that the synthesised input files still hold their bytes
PROPERTY = "C16"
LEVEL = "exploration"
CLAIM = {
    "text": "Exploration by runtime monitoring: (a) spies on RFIMask.apply_mask/apply_method/apply_funcn assert after every call that chan_mask is a superset of its previous value and equals previous OR the component just computed, and the mask returned by clean_rfi equals user OR stats OR custom; (b) user and statistics masks are recomputed by independent float64 definitions (closed frequency ranges; double-MAD and IQRM z-scores on var/skew/kurtosis) with elements within 1e-4 of the threshold treated as ambiguous, planted outliers must be flagged and all-equal vectors must flag nothing; (c) the cleaned file is compared sample by sample with the input for gulps {1,7,N/3,N,inf} at depths 1,2,4,8,32: masked channels constant at the mask value, every other sample bit-identical; (d) RFIMask.from_file(to_file()) must reproduce arrays, threshold and header. Added: float bands with negative levels and negative/out-of-byte-range mask values (default value within 1e-4 of the median for float data), the custom function must be shown user|stats and its mask must equal f(user|stats); input files are re-hashed after every case. The thorough tier also runs the repository's own test-suite with the RFIMask monotonicity hooks on. Rounds 7-8 added: mostly-tied statistic vectors with outliers of unequal strength on both sides, tiny-scale vectors (scatter 4e-8), bands of 4-11 channels, and duplicates of a mask (copy / attrs.evolve) taken mid-history. Round 9 added: double-precision statistic vectors at level 1e9 (IQRM). Round 10 added: the threshold retuned between statistics passes of one mask (statistics mask judged against the reference at the threshold of the moment) and range limits given as the decimal centres of a band that single precision cannot hold.",
    "design_ref": "DESIGN.md section 3 (C16)",
    "note": "Trusted: numpy float64 median/percentile as the reference for double-MAD and IQRM, vlib/sigfile.py. Frequency-range limits are either >= a quarter channel away from every centre or exactly equal to a channel's float32 centre (closed range: included). The default mask value must lie within one quantisation level of the median of the unmasked channel means.",
    "technique": "runtime monitoring: invariant hooks on mask updates + independent reference masks + whole-file differential of the cleaned output",
}
ASSUMPTIONS = ["elements whose reference |z| is within 1e-4*threshold (relative) of the threshold are ambiguous and excluded", "custom mask functions return boolean arrays of the right length"]
RULE = ("files: random (depth, nchans 16..64, N 60..300, planted bad channels, method, threshold, freq ranges, custom function, mask value, gulp); vectors: random statistic vectors "
        "incl. planted outliers, all-equal, ties; non-trivial = at least one channel masked and one unmasked; distinct = distinct case record")
DEPTHS = (1, 2, 4, 8, 32)


SUITE_CONTRACTS = True   # thorough tier also runs the repository's own tests under vlib/suite_plugin.py
_SUITE_REQUIRED = ['suite:apply_mask_checks', 'suite:apply_method_checks', 'suite:apply_funcn_checks']


def REQUIRED(tier):
    return _required(tier) + (_SUITE_REQUIRED if tier == "thorough" else [])


def _required(tier):
    return ["files_cleaned", "hook:apply_mask", "hook:apply_method", "hook:apply_funcn", "mask_union_checks", "vectors:mad", "vectors:iqrm", "vector:all_equal", "vector:planted_outlier",
            "file_samples_compared", "regime:multi_block", "roundtrip_checks", "freq:empty_list", "freq:outside_band", "freq:overlapping", "freq:limit_on_centre", "algebra_histories", "regime:subrange_cleaned", "regime:negative_float_samples", "regime:float_mask_value_outside_0_255", "custom_function_input_checks", "regime:cleaning_after_a_refused_call", "regime:integer_valued_custom_mask", "band:ascending", "second_cleaning_on_same_reader", "roundtrip:saved_over_an_existing_mask_file", "vector:mostly_tied", "algebra:duplicate_taken_mid_history", "vector:tiny_scale", "vector:fewer_than_12_channels", "vector:float64_high_level", "algebra:threshold_changed_between_method_calls", "algebra:stats_mask_vs_reference", "freq:limit_on_decimal_centre", "freq:decimal_limit_judged"]


def cases(tier, seed):
    nf, nv = (160, 4000) if tier == "quick" else (2000, 100000)
    for i in range(nf):
        yield {"kind": "file", "seed": int(seed) * 100003 + i}
    for i in range(10):      # the float regimes are required ones: do not leave them to chance
        yield {"kind": "file", "seed": int(seed) * 100003 + nf + i, "force": i}
    for i in range(0, nv, 100):
        yield {"kind": "vectors", "n": 100, "seed": int(seed) * 100003 + i}
    for i in range(max(4, nf // 10)):
        yield {"kind": "roundtrip", "seed": int(seed) * 100003 + i}
    for i in range(0, 200 if tier == "quick" else 4000, 20):
        yield {"kind": "algebra", "n": 20, "seed": int(seed) * 100003 + i}


# ------------------------------------------------------------------ reference masks
def ref_doublemad_z(x):
    x = np.asarray(x, dtype=np.float32).astype(np.float64)
    m = np.median(x)
    dev = np.abs(x - m)
    norm, norm_aad = 0.6744897501960817, np.sqrt(2 / np.pi)
    left, right = dev[x <= m], dev[x >= m]
    ml, mr = np.median(left) / norm, np.median(right) / norm
    if abs(ml) <= 1e-8:
        ml = left.mean() / norm_aad
    if abs(mr) <= 1e-8:
        mr = right.mean() / norm_aad
    scale = np.where(x < m, ml, mr)
    scale = np.where(np.abs(scale) <= 1e-8, 1.0, scale)
    return (x - m) / scale


def ref_iqrm_z(x, radius=5):
    x = np.asarray(x, dtype=np.float64)
    n = x.size
    out = []
    for lag in list(range(-radius, 0)) + list(range(1, radius + 1)):
        idx = np.clip(np.arange(n) + lag, 0, n - 1)
        d = (x - x[idx]).astype(np.float32).astype(np.float64)
        q1, q3 = np.percentile(d, [25, 75])
        s = (q3 - q1) / 1.3489795003921634
        if abs(s) <= 1e-8:
            s = 1.0
        out.append((d - np.median(d)) / s)
    return np.array(out)


def ref_mask(x, thr, method):
    """Returns (mask, ambiguous) from the reference z-scores."""
    z = ref_doublemad_z(x)[None, :] if method == "mad" else ref_iqrm_z(x)
    az = np.abs(z)
    amb = np.any(np.abs(az - thr) <= 1e-4 * thr + 1e-6 * np.maximum(1.0, az) , axis=0)
    return np.any(az > thr, axis=0), amb


# ------------------------------------------------------------------ hooks
_hook = {"installed": False, "events": [], "viol": []}


def setup_worker(ctx):
    from sigpyproc.core.rfi import RFIMask

    if _hook["installed"]:
        return
    for name, comp in (("apply_mask", "user_mask"), ("apply_method", "stats_mask"), ("apply_funcn", "custom_mask")):
        orig = getattr(RFIMask, name)

        def wrapper(self, *a, _orig=orig, _name=name, _comp=comp, **kw):
            before = np.array(self.chan_mask, dtype=bool).copy()
            r = _orig(self, *a, **kw)
            after = np.array(self.chan_mask, dtype=bool)
            comp_arr = np.array(getattr(self, _comp), dtype=bool)
            _hook["events"].append(_name)
            if np.any(before & ~after):
                _hook["viol"].append((f"mask-shrunk:{_name}", f"{_name} removed channels {np.flatnonzero(before & ~after)[:5].tolist()} from chan_mask"))
            elif not np.array_equal(after, before | comp_arr):
                _hook["viol"].append((f"mask-not-union:{_name}", f"after {_name}: chan_mask != previous | {_comp} (extra {np.flatnonzero(after & ~(before | comp_arr))[:5].tolist()}, missing {np.flatnonzero((before | comp_arr) & ~after)[:5].tolist()})"))
            return r

        setattr(RFIMask, name, wrapper)
    _hook["installed"] = True


def run_case(case, ctx):
    {"file": _file, "vectors": _vectors, "roundtrip": _roundtrip, "algebra": _algebra}[case["kind"]](case, ctx)


def _freq_ranges(rng, freqs, foff):
    """Random closed ranges whose ends are >= 1e-3 MHz away from every centre; returns (ranges, class)."""
    cls = str(rng.choice(["none", "empty_list", "single", "overlapping", "outside_band", "whole_channel", "limit_on_centre"]))
    lo, hi = freqs.min(), freqs.max()
    h = abs(foff)

    def edge(v):  # snap to a half-channel boundary (centres sit at integer multiples of foff from fch1)
        k = np.round((v - freqs[0]) / foff - 0.5) + 0.5
        return float(freqs[0] + k * foff)

    if cls == "limit_on_centre":
        # limits that are exactly the (float32) centre of a channel: the range is closed, so those channels belong to it
        a, b = sorted(int(v) for v in rng.integers(0, freqs.size, size=2))
        lims = sorted([float(freqs[a]), float(freqs[b])])
        k = int(rng.integers(0, freqs.size))
        return [(lims[0], lims[1]), (float(freqs[k]), float(freqs[k]))], cls
    if cls == "none":
        return None, cls
    if cls == "empty_list":
        return [], cls
    if cls == "single":
        a, b = sorted(rng.uniform(lo, hi, size=2))
        return [(edge(a), edge(b))], cls
    if cls == "overlapping":
        a, b, c = sorted(rng.uniform(lo, hi, size=3))
        return [(edge(a), edge(c)), (edge(b), edge(c) + 3 * h), (edge(a), edge(a))], cls
    if cls == "outside_band":
        return [(hi + 5 * h, hi + 50 * h), (lo - 80 * h, lo - 2 * h)], cls
    c = float(freqs[int(rng.integers(0, freqs.size))])
    return [(c - 0.25 * h, c + 0.25 * h)], cls


def _file(case, ctx):
    from sigpyproc.readers import FilReader

    rng = np.random.default_rng([case["seed"], 16])
    nbits = int(rng.choice(DEPTHS))
    force = case.get("force")
    if force is not None:
        nbits = 32
    nch = int(rng.choice([16, 32, 64]))
    N = int(rng.integers(60, 300))
    top = sigfile.maxval(nbits) if nbits != 32 else 255
    base = rng.integers(top // 3, 2 * top // 3 + 1, size=nch) if top > 1 else np.zeros(nch, dtype=int)
    X = np.clip(base + np.round(rng.normal(size=(N, nch)) * max(1, top // 12)), 0, top)
    if top == 1:
        X = (rng.random((N, nch)) < 0.5).astype(float)
    bad = rng.choice(nch, size=int(rng.integers(0, 4)), replace=False)
    for c in bad:
        kind = int(rng.integers(0, 3))
        if kind == 0:
            X[:, c] = np.clip(np.round(rng.normal(size=N) * top / 2 + top / 2), 0, top)       # high variance
        elif kind == 1:
            X[rng.integers(0, N, size=3), c] = top                                            # skew/kurtosis spikes
        else:
            X[:, c] = top if top > 1 else 1                                                   # stuck
    neg32 = nbits == 32 and (case["seed"] % 2 == 1 if force is None else force % 2 == 1)
    if neg32:   # float samples are signed: a band whose levels are negative (e.g. after baseline removal)
        X = X - 2.0 * top
        ctx.count("regime:negative_float_samples")
    X = X.astype(np.float32 if nbits == 32 else np.uint8)
    d = os.path.join(ctx.tmp, f"f{case['seed']}")
    os.makedirs(d, exist_ok=True)
    foff = -float(rng.choice([1.0, 0.5, 4.0]))
    fch1 = 1500.0
    if case["seed"] % 4 == 2:     # an ascending frequency axis (legal, rarer): channel 0 is the bottom of the band
        foff = -foff
        fch1 = 1500.0 - nch * foff
        ctx.count("band:ascending")
    nfiles = int(rng.choice([1, 1, 2]))
    split = [N] if nfiles == 1 else [N // 2, N - N // 2]
    paths = sigfile.write_split(d, X, nbits, split, fch1=fch1, foff=foff, tsamp=1e-3)
    fil = FilReader(paths if nfiles > 1 else paths[0])
    method = str(rng.choice(["mad", "iqrm"]))
    thr = float(rng.choice([3.0, 2.0, 5.0, float(rng.uniform(1, 6))]))
    freqs = np.asarray(fil.header.chan_freqs, dtype=np.float64)
    franges, fcls = _freq_ranges(rng, freqs, foff)
    ctx.count(f"freq:{fcls}")
    cust_k = int(rng.integers(0, 3))
    cust_idx = rng.choice(nch, size=2, replace=False)
    int_mask = bool(cust_k and np.random.default_rng([case["seed"], 167]).random() < 0.35)   # the custom function answers with 0/1 integers instead of booleans

    seen_by_custom = []

    def custom(mask):
        seen_by_custom.append(np.array(mask, dtype=bool).copy())
        out = np.zeros(mask.size, dtype=bool)
        if cust_k == 1:
            out[cust_idx] = True
        elif cust_k == 2:
            out[1:] = np.asarray(mask, dtype=bool)[:-1]  # neighbours of already masked channels
        return out.astype(np.int64) if int_mask else out

    mval = None if rng.random() < 0.5 else float(rng.integers(0, top + 1))
    if force is not None:
        mval = [-1.0, None, -37.5, None, 1e6, -1000.0, 0.125, None, -2.5, 300.0][force]
        if mval is not None:
            ctx.count("regime:float_mask_value_outside_0_255")
    elif mval is not None and nbits == 32 and case["seed"] % 3 == 0:
        mval = float(np.random.default_rng([case["seed"], 163]).choice([-1.0, -37.5, -1000.0, 0.125, 1e6]))
        ctx.count("regime:float_mask_value_outside_0_255")
    gulp = int(rng.choice([1, 7, max(1, N // 3), N, 10 * N]))
    srng = np.random.default_rng([case["seed"], 161])
    start, nsel = 0, N
    if srng.random() < 0.35:   # clean only a sub-range of the file
        start = int(srng.integers(1, N // 3))
        nsel = int(srng.integers(N // 3, N - start + 1))
        ctx.count("regime:subrange_cleaned")
    one = dict(case, params={"nbits": nbits, "nchans": nch, "N": N, "method": method, "threshold": thr, "freq_class": fcls, "freq_mask": franges,
                             "custom": cust_k, "mask_value": mval, "gulp": gulp, "nfiles": nfiles, "start": start, "nsamps": nsel})
    out = os.path.join(d, "clean.fil")
    if np.random.default_rng([case["seed"], 169]).random() < 0.3:
        # a call the library must refuse while it streams (overlap as long as the block) comes first on the same reader
        try:
            with np.errstate(all="ignore"):
                fil.clean_rfi(method=method, threshold=thr, outfile_name=os.path.join(d, "refused.fil"), gulp=5, skipback=5, quiet=True, description="v")
        except ValueError:
            ctx.count("regime:cleaning_after_a_refused_call")
        except Exception:  # noqa: BLE001
            pass
        if os.path.exists(os.path.join(d, "refused.fil")):
            os.unlink(os.path.join(d, "refused.fil"))
    if int_mask:
        ctx.count("regime:integer_valued_custom_mask")
    _hook["events"].clear(); _hook["viol"].clear()
    ctx.evaluated()
    try:
        with np.errstate(all="ignore"):
            name, mask = fil.clean_rfi(method=method, threshold=thr, freq_mask=franges, custom_funcn=custom if cust_k else None, mask_value=mval,
                                       outfile_name=out, gulp=gulp, start=start, nsamps=nsel, quiet=True, description="v")
    except Exception as exc:  # noqa: BLE001
        if int_mask and isinstance(exc, (TypeError, ValueError)):
            ctx.count("integer_custom_mask_refused")   # refusing a non-boolean answer is fine; using it wrongly is not
            return
        ctx.violation(f"clean_rfi-raised:{type(exc).__name__}@{exc_site(exc)}", fmt_exc(exc), one)
        return
    ctx.count("files_cleaned")
    for ev in _hook["events"]:
        ctx.count(f"hook:{ev}")
    for mech, msg in _hook["viol"]:
        ctx.violation(mech, msg, one)
    if _hook["viol"]:
        return
    cm = np.array(mask.chan_mask, dtype=bool)
    ctx.count("mask_union_checks")
    union = np.array(mask.user_mask, dtype=bool) | np.array(mask.stats_mask, dtype=bool) | np.array(mask.custom_mask, dtype=bool)
    if not np.array_equal(cm, union):
        ctx.violation("mask-not-union:clean_rfi", f"chan_mask != user|stats|custom (extra {np.flatnonzero(cm & ~union)[:5].tolist()}, missing {np.flatnonzero(union & ~cm)[:5].tolist()})", one)
        return
    # user mask vs closed ranges on the float32 centres
    want_user = np.zeros(nch, dtype=bool)
    for lo_, hi_ in (franges or []):
        want_user |= (freqs >= lo_) & (freqs <= hi_)
    if not np.array_equal(np.array(mask.user_mask, dtype=bool), want_user):
        ctx.violation(f"user-mask[{fcls}]", f"user mask {np.flatnonzero(mask.user_mask)[:8].tolist()} != channels inside the closed ranges {np.flatnonzero(want_user)[:8].tolist()}", one)
        return
    # stats mask vs reference on the statistics the mask itself holds
    want_stats, amb = np.zeros(nch, dtype=bool), np.zeros(nch, dtype=bool)
    for vec in (mask.chan_var, mask.chan_skew, mask.chan_kurt):
        m_, a_ = ref_mask(vec, thr, method)
        want_stats |= m_
        amb |= a_
    got_stats = np.array(mask.stats_mask, dtype=bool)
    diff = (got_stats != want_stats) & ~amb
    if np.any(diff):
        ctx.violation(f"stats-mask:{method}", f"stats mask differs from the reference {method} outlier definition at channels {np.flatnonzero(diff)[:6].tolist()} (threshold {thr})", one)
        return
    if cust_k == 1 and not np.all(np.array(mask.custom_mask, dtype=bool)[cust_idx]):
        ctx.violation("custom-mask", "custom mask not recorded", one)
        return
    if cust_k:
        # the custom function is documented to receive "the existing mask": in clean_rfi that is user OR statistics
        ctx.count("custom_function_input_checks")
        existing = np.array(mask.user_mask, dtype=bool) | got_stats
        if len(seen_by_custom) != 1 or not np.array_equal(seen_by_custom[0], existing):
            miss = np.flatnonzero(existing & ~seen_by_custom[0])[:6].tolist() if seen_by_custom else None
            ctx.violation("custom-function-input", f"custom function called {len(seen_by_custom)} time(s); the mask it was given lacks already flagged channels {miss} (user|stats)", one)
            return
        want_c = np.zeros(nch, dtype=bool)
        if cust_k == 1:
            want_c[cust_idx] = True
        else:
            want_c[1:] = existing[:-1]
        if not np.array_equal(np.array(mask.custom_mask, dtype=bool), want_c):
            ctx.violation("custom-mask-value", f"custom mask {np.flatnonzero(mask.custom_mask)[:8].tolist()} != f(user|stats) {np.flatnonzero(want_c)[:8].tolist()}", one)
            return
    # ---- cleaned file
    dd, hl, raw = sigfile.parse_file(name)
    if dd["nbits"] != nbits or len(raw) * 8 != nsel * nch * nbits:
        ctx.violation("cleaned-file-size", f"cleaned file: nbits {dd['nbits']}, {len(raw)} data bytes for {nsel}x{nch} (range [{start},{start+nsel}) of {N})", one)
        return
    Y = sigfile.decode_data(raw, nbits, nch).astype(np.float64)
    Xf = X.astype(np.float64)[start : start + nsel]
    # the statistics the mask was built from must describe the cleaned range
    ref_mean = Xf.mean(axis=0)
    if np.any(np.abs(np.asarray(mask.chan_mean, dtype=np.float64) - ref_mean) > 1e-3 * np.maximum(1.0, np.abs(ref_mean))):
        ctx.violation("mask-statistics-of-wrong-range", f"RFIMask.chan_mean does not describe samples [{start},{start+nsel}) that were cleaned", one)
        return
    ctx.count("file_samples_compared", int(Y.size))
    if max(gulp, 1) < nsel:
        ctx.count("regime:multi_block")
    keep = ~cm
    if not np.array_equal(Y[:, keep], Xf[:, keep]):
        t, c = (int(v) for v in np.argwhere(Y[:, keep] != Xf[:, keep])[0])
        ctx.violation("unmasked-sample-changed", f"sample {t} of unmasked channel {int(np.flatnonzero(keep)[c])} changed: {Xf[:, keep][t, c]} -> {Y[:, keep][t, c]} (gulp={gulp})", one)
        return
    if cm.any():
        masked = Y[:, cm]
        if mval is not None:
            if not np.all(masked == mval):
                t, c = (int(v) for v in np.argwhere(masked != mval)[0])
                ctx.violation("masked-sample-not-mask-value", f"sample {t} of masked channel {int(np.flatnonzero(cm)[c])} is {masked[t, c]}, mask value {mval} (gulp={gulp}, block {t // max(1, min(gulp, nsel))})", one)
                return
        elif not keep.any():
            ctx.skip("all channels masked: the default mask value (median of unmasked channel means) is undefined")
        else:
            v0 = masked[0, 0]
            if not np.all(masked == v0):
                t, c = (int(v) for v in np.argwhere(masked != v0)[0])
                ctx.violation("masked-sample-not-constant", f"masked channel {int(np.flatnonzero(cm)[c])} not constant: sample {t} is {masked[t, c]}, first is {v0} (gulp={gulp})", one)
                return
            if keep.any():
                med = float(np.median(Xf[:, keep].mean(axis=0)))
                if abs(v0 - med) > (1.0 if nbits != 32 else 0.0) + 1e-4 * max(1.0, abs(med)):
                    ctx.violation("default-mask-value", f"default mask value {v0} is not within one level of the median of unmasked channel means {med}", one)
                    return
    # ---- a second cleaning on the same reader (other options, default mask value) must give what a fresh reader gives
    if case["seed"] % 3 == 0 and keep.any():
        ctx.count("second_cleaning_on_same_reader")
        try:
            with np.errstate(all="ignore"):
                n2, m2 = fil.clean_rfi(method=method, threshold=thr, outfile_name=os.path.join(d, "again.fil"), gulp=gulp, start=start, nsamps=nsel, quiet=True, description="v")
                n3, m3 = FilReader(paths if nfiles > 1 else paths[0]).clean_rfi(method=method, threshold=thr, outfile_name=os.path.join(d, "fresh.fil"), gulp=gulp, start=start, nsamps=nsel, quiet=True, description="v")
            if not np.array_equal(np.array(m2.chan_mask, dtype=bool), np.array(m3.chan_mask, dtype=bool)) or open(n2, "rb").read() != open(n3, "rb").read():
                ctx.violation("cleaning-depends-on-reader-history", "clean_rfi on a reader that has cleaned before (other mask, explicit value) writes a different file / mask than the same call on a fresh reader", one)
                return
        except Exception as exc:  # noqa: BLE001
            ctx.violation(f"clean_rfi-raised:second-call:{type(exc).__name__}@{exc_site(exc)}", fmt_exc(exc), one)
            return
    if cm.any() and keep.any():
        ctx.nontrivial_case(one)
    if ctx.evaluations % 10 == 1:
        ctx.sample({"params": one["params"], "masked_channels": np.flatnonzero(cm).tolist()[:12], "planted": sorted(int(c) for c in bad), "hook_events": list(_hook["events"])})
    for f in os.listdir(d):
        os.unlink(os.path.join(d, f))
    os.rmdir(d)


def _vectors(case, ctx):
    from sigpyproc.core import rfi

    for j in ([case["only"]] if "only" in case else range(case["n"])):
        rng = np.random.default_rng([case["seed"], j, 17])
        n = int(rng.integers(12, 200))
        cls = str(rng.choice(["normal", "all_equal", "planted_outlier", "ties", "lognormal"]))
        if j % 5 == 4:
            cls = "mostly_tied"
        if j % 10 == 3:
            n = int(rng.integers(4, 12))         # narrow bands: fewer channels than twice the IQRM lag radius
            ctx.count("vector:fewer_than_12_channels")
        if j % 10 == 7:
            cls = "tiny_scale"
        if cls == "mostly_tied":
            # more than half of the channels are dead (their statistic is exactly the same number); the live ones scatter on both sides of it,
            # with one violent channel on one side and a moderate one on the other
            x = np.full(n, float(rng.choice([0.0, -3.0, 1.5])))
            live = rng.choice(n, size=max(4, n // 2 - 2 - int(rng.integers(0, n // 4))), replace=False)
            x[live] += rng.normal(size=live.size) * 0.3
            sgn = float(rng.choice([-1, 1]))
            x[live[0]] += sgn * float(rng.choice([500.0, 90.0, 2000.0]))
            x[live[1]] -= sgn * float(rng.uniform(2.0, 8.0))
        elif cls == "tiny_scale":
            # statistics of calibrated data (sample rms ~1e-4): robust scales of a few 1e-8, far above the 1e-8 "zero scale" guard, outlier at 1e-5
            x = rng.normal(size=n) * 4.0e-8 * float(rng.uniform(0.8, 2.0))
        elif cls == "all_equal":
            x = np.full(n, float(rng.normal() * 10))
        elif cls == "ties":
            x = rng.integers(0, 4, size=n).astype(float)
        elif cls == "lognormal":
            x = np.exp(rng.normal(size=n))
        else:
            x = rng.normal(size=n) * 3 + 10
        planted = None
        if cls == "planted_outlier":
            planted = int(rng.integers(0, n))
            x[planted] += float(rng.choice([-1, 1])) * 1000.0
        if cls == "tiny_scale":
            planted = int(rng.integers(0, n))
            x[planted] += float(rng.choice([-1, 1])) * 1.0e-5
        x = x.astype(np.float32)
        f64 = bool(j % 10 == 9)
        if f64:
            # statistics computed elsewhere in double precision on a high level (variances ~1e9 whose differences are tens): the lagged
            # differences are taken at the precision the caller supplied
            x = 1.0e9 + np.round(rng.normal(size=n) * 10.0)
            planted = int(rng.integers(0, n))
            x[planted] += float(rng.choice([-1, 1])) * 400.0
            cls = "float64_high_level"
        thr = float(rng.choice([3.0, 2.0, 5.0, float(rng.uniform(0.5, 8))]))
        for method, fn in ((("mad", rfi.double_mad_mask), ("iqrm", rfi.iqrm_mask)) if not f64 else (("iqrm", rfi.iqrm_mask),)):
            ctx.evaluated(); ctx.count(f"vectors:{method}"); ctx.count(f"vector:{cls}")
            one = {"kind": "vectors", "n": 1, "seed": case["seed"], "only": j, "method": method, "cls": cls}
            try:
                with np.errstate(all="ignore"):
                    got = np.asarray(fn(x, thr), dtype=bool)
            except Exception as exc:  # noqa: BLE001
                ctx.violation(f"mask-fn-raised:{method}:{type(exc).__name__}@{exc_site(exc)}", fmt_exc(exc), one)
                continue
            want, amb = ref_mask(x, thr, method)
            diff = (got != want) & ~amb
            if got.shape != (n,) or np.any(diff):
                ctx.violation(f"mask-vs-reference:{method}:{cls}", f"{method} mask differs from the reference at {np.flatnonzero(diff)[:6].tolist()} (n={n}, threshold {thr})", one)
                continue
            if cls == "all_equal" and got.any():
                ctx.violation(f"all-equal-flagged:{method}", f"all-equal vector flagged channels {np.flatnonzero(got)[:5].tolist()}", one)
            if planted is not None and n >= 12 and not got[planted]:     # in a handful of channels one extreme value sets the scale of its own side
                ctx.violation(f"planted-outlier-missed:{method}", f"outlier of {'1e-5 over a scatter of 4e-8' if cls == 'tiny_scale' else 1000} at {planted} not flagged (threshold {thr})", one)
            if got.any() and not got.all():
                ctx.nontrivial_case(one)


def _algebra(case, ctx):
    """Histories of apply_mask / apply_method / apply_funcn on one RFIMask (each possibly several times): the hooks assert
    after every call that chan_mask only grows and equals previous | component."""
    from sigpyproc.core.rfi import RFIMask
    from sigpyproc.header import Header

    for j in ([case["only"]] if "only" in case else range(case["n"])):
        rng = np.random.default_rng([case["seed"], j, 19])
        nch = int(rng.integers(8, 64))
        hdr = Header(filename="x.fil", data_type="filterbank", nchans=nch, foff=-1.0, fch1=1500.0, nbits=8, tsamp=1e-3, tstart=58000.0, nsamples=1000)
        arrs = {k: rng.normal(size=nch).astype(np.float32) for k in ("chan_mean", "chan_var", "chan_skew", "chan_kurt", "chan_maxima", "chan_minima")}
        for k in ("chan_var", "chan_skew", "chan_kurt"):
            arrs[k][rng.integers(0, nch, size=2)] += 50.0
        m = RFIMask(float(rng.uniform(1.5, 5)), hdr, **arrs)
        if j % 3 == 0:
            # a band whose centres are decimal numbers (1400.1, 1399.1, ...) that single precision cannot hold, and a range given by the observer
            # in those decimal numbers: the range is closed, so the channels whose centres are its limits belong to it
            f1, fo = ((1400.1, -1.0), (1234.5678, -0.1), (1400.1, 1.0))[(j // 3) % 3]
            dh = Header(filename="x.fil", data_type="filterbank", nchans=nch, foff=fo, fch1=f1, nbits=8, tsamp=1e-3, tstart=58000.0, nsamples=1000)
            dm_ = RFIMask(3.0, dh, **arrs)
            ka, kb = sorted(int(v) for v in rng.integers(0, nch, size=2))
            cen = [f1 + k * fo for k in range(nch)]          # the decimal centres, in double precision
            lims = sorted([cen[ka], cen[kb]])
            dm_.apply_mask([(lims[0], lims[1])])
            ctx.evaluated(); ctx.count("freq:limit_on_decimal_centre")
            wantu = np.zeros(nch, dtype=bool); wantu[ka:kb + 1] = True
            gotu = np.array(dm_.user_mask, dtype=bool)
            # a limit channel whose single-precision centre in the header's own table is not the single-precision value of the decimal limit sits
            # within one rounding of the limit: either outcome is accepted there (counted); channel 0 (the limit is fch1 itself) is never ambiguous
            lib32 = np.asarray(dh.chan_freqs, dtype=np.float32)
            for kk in {ka, kb}:
                if np.float32(cen[kk]) != lib32[kk]:
                    wantu[kk] = gotu[kk]
                    ctx.count("freq:decimal_limit_within_one_rounding_of_the_centre")
                else:
                    ctx.count("freq:decimal_limit_judged")
            if not np.array_equal(gotu, wantu):
                ctx.violation("user-mask[limit_on_decimal_centre]", f"band fch1={f1} foff={fo}: range [{lims[0]!r}, {lims[1]!r}] whose limits are the centres of channels {ka} and {kb} masked {np.flatnonzero(gotu)[:3].tolist()}..{np.flatnonzero(gotu)[-3:].tolist()} instead of {ka}..{kb}", {"kind": "algebra", "n": 1, "seed": case["seed"], "only": j})
        ops = []
        _hook["events"].clear(); _hook["viol"].clear()
        ctx.evaluated(); ctx.count("algebra_histories")
        one = {"kind": "algebra", "n": 1, "seed": case["seed"], "only": j}
        seen = np.zeros(nch, dtype=bool)
        twin = twin_snap = None
        for it in range(int(rng.integers(2, 7))):
            if it == 1:
                # a duplicate of the mask taken mid-way (to try other settings on): what is applied to the original later is not applied to the duplicate
                import copy

                twin = copy.copy(m) if j % 2 else __import__("attrs").evolve(m, threshold=m.threshold + 1.0)
                twin_snap = np.array(twin.chan_mask, dtype=bool)
                ctx.count("algebra:duplicate_taken_mid_history")
            kind = int(rng.integers(0, 3))
            if kind == 0:
                a, b = sorted(rng.uniform(1500.0 - nch, 1500.0, size=2))
                m.apply_mask([(float(a), float(b))]); ops.append(["apply_mask", float(a), float(b)])
            elif kind == 1:
                meth = str(rng.choice(["mad", "iqrm"]))
                if rng.random() < 0.6 and any(o[0] == "apply_method" for o in ops):
                    # the threshold is retuned between two statistics passes on the same mask (an interactive session): the pass uses the value of the moment
                    m.threshold = float(rng.uniform(1.2, 6)); ops.append(["threshold", m.threshold])
                    ctx.count("algebra:threshold_changed_between_method_calls")
                with np.errstate(all="ignore"):
                    m.apply_method(meth)
                ops.append(["apply_method", meth])
                want = np.zeros(nch, dtype=bool); amb = np.zeros(nch, dtype=bool)
                for kk in ("chan_var", "chan_skew", "chan_kurt"):
                    w_, a_ = ref_mask(arrs[kk].astype(np.float64), float(m.threshold), meth)
                    want |= w_; amb |= a_
                got_sm = np.array(m.stats_mask, dtype=bool)
                bad = (got_sm != want) & ~amb
                ctx.count("algebra:stats_mask_vs_reference")
                if np.any(bad):
                    ctx.violation(f"stats-mask-differs-from-definition:history:{meth}", f"after {ops[-1]} at threshold {m.threshold:.3f} the statistics mask differs from the reference at channels {np.flatnonzero(bad)[:6].tolist()} (history {ops})", one)
                    break
            else:
                idx = rng.integers(0, nch, size=2)
                m.apply_funcn(lambda cm, idx=idx: np.isin(np.arange(cm.size), idx)); ops.append(["apply_funcn", idx.tolist()])
            cur = np.array(m.chan_mask, dtype=bool)
            if np.any(seen & ~cur):
                ctx.violation("mask-shrunk:history", f"after {ops[-1]} channels {np.flatnonzero(seen & ~cur)[:5].tolist()} masked earlier are no longer masked (history {ops})", one)
                break
            seen |= cur
        if twin is not None:
            if not np.array_equal(np.array(twin.chan_mask, dtype=bool), twin_snap):
                ctx.violation("mask-changed-without-apply:duplicate", f"a duplicate of the mask taken after the first step gained channels {np.flatnonzero(np.array(twin.chan_mask, dtype=bool) & ~twin_snap)[:6].tolist()} although nothing was applied to it (history on the original: {ops})", one)
            else:
                before = np.array(m.chan_mask, dtype=bool)
                twin.apply_mask([(1500.0 - nch, 1500.0)])
                if not np.array_equal(np.array(m.chan_mask, dtype=bool), before):
                    ctx.violation("mask-changed-without-apply:original", f"masking the whole band in a duplicate changed the original mask (history {ops})", one)
        for ev in _hook["events"]:
            ctx.count(f"hook:{ev}")
        for mech, msg in _hook["viol"]:
            ctx.violation(mech + ":history", msg + f" (history {ops})", one)
        if len(ops) >= 2:
            ctx.nontrivial_case(one)
        if j == 0:
            ctx.sample({"kind": "algebra", "history": ops, "masked": int(np.sum(m.chan_mask)), "nchans": nch})


def _roundtrip(case, ctx):
    from astropy import units as u
    from astropy.coordinates import Angle, SkyCoord

    from sigpyproc.core.rfi import RFIMask
    from sigpyproc.header import Header

    rng = np.random.default_rng([case["seed"], 18])
    nch = int(rng.integers(4, 64))
    hdr = Header(filename="obs.fil", data_type="filterbank", nchans=nch, foff=-float(rng.uniform(0.1, 4)), fch1=float(rng.uniform(400, 3000)), nbits=int(rng.choice([1, 2, 4, 8, 32])),
                 tsamp=float(10 ** rng.uniform(-5, -2)), tstart=float(rng.uniform(50000, 60000)), nsamples=int(rng.integers(100, 10**6)),
                 coord=SkyCoord(float(rng.uniform(0, 24)) * u.hourangle, float(rng.uniform(-90, 90)) * u.deg), azimuth=Angle(float(rng.uniform(0, 360)) * u.deg),
                 zenith=Angle(float(rng.uniform(0, 90)) * u.deg), telescope="Parkes", backend="BPSR", source="J0437-4715", ibeam=3, nbeams=13, dm=12.5,
                 signed=bool(rng.random() < 0.5), rawdatafile="raw_%d.dat" % int(rng.integers(0, 99)), accel=float(rng.integers(0, 9)), period=float(rng.random()))
    arrs = {k: rng.normal(size=nch).astype(np.float32) for k in ("chan_mean", "chan_var", "chan_skew", "chan_kurt", "chan_maxima", "chan_minima")}
    thr = float(rng.uniform(1, 6))
    m = RFIMask(thr, hdr, **arrs)
    m.apply_mask([(hdr.fch1 + 3.5 * hdr.foff, hdr.fch1 - 0.5 * hdr.foff)])
    m.apply_method(str(rng.choice(["mad", "iqrm"])))
    m.apply_funcn(lambda cm: np.roll(cm, 1))
    path = os.path.join(ctx.tmp, "mask.h5")
    ctx.evaluated(); ctx.count("roundtrip_checks")
    one = dict(case)
    try:
        m.to_file(path)
        back = RFIMask.from_file(path)
    except Exception as exc:  # noqa: BLE001
        ctx.violation(f"roundtrip-raised:{type(exc).__name__}@{exc_site(exc)}", fmt_exc(exc), one)
        return
    for k in list(arrs) + ["chan_mask", "user_mask", "stats_mask", "custom_mask"]:
        a, b = np.asarray(getattr(m, k)), np.asarray(getattr(back, k))
        if a.shape != b.shape or a.dtype != b.dtype or not np.array_equal(a, b):
            ctx.violation(f"roundtrip-array:{k}", f"{k} not reproduced (dtype {a.dtype}->{b.dtype})", one)
            return
    if float(back.threshold) != thr:
        ctx.violation("roundtrip-threshold", f"{thr} -> {back.threshold}", one)
    for k in ("filename", "data_type", "nchans", "foff", "fch1", "nbits", "tsamp", "tstart", "nsamples", "nifs", "telescope", "backend", "source", "frame", "ibeam", "nbeams", "dm", "signed", "rawdatafile", "accel", "period"):
        if getattr(back.header, k) != getattr(hdr, k):
            ctx.violation(f"roundtrip-header:{k}", f"header.{k}: {getattr(hdr, k)!r} -> {getattr(back.header, k)!r}", one)
            return
    sep = back.header.coord.separation(hdr.coord).arcsec
    if not sep <= 0.01:
        ctx.violation("roundtrip-header:coord", f"sky position moved by {sep:.3f} arcsec ({hdr.ra} {hdr.dec} -> {back.header.ra} {back.header.dec})", one)
        return
    for k in ("azimuth", "zenith"):
        if abs(getattr(back.header, k).deg - getattr(hdr, k).deg) > 1e-9:
            ctx.violation(f"roundtrip-header:{k}", f"{k}: {getattr(hdr, k).deg} -> {getattr(back.header, k).deg}", one)
            return
    # ---- the mask is refined and saved again under the same name: the file describes the mask as it is now
    ctx.evaluated(); ctx.count("roundtrip_checks"); ctx.count("roundtrip:saved_over_an_existing_mask_file")
    try:
        m.apply_mask([(hdr.fch1 + (nch - 1.5) * hdr.foff, hdr.fch1 + (nch - 3.5) * hdr.foff) if hdr.foff < 0 else (hdr.fch1 + (nch - 3.5) * hdr.foff, hdr.fch1 + (nch - 1.5) * hdr.foff)])
        m.apply_funcn(lambda cm: np.roll(cm, -1))
        m.to_file(path)
        back2 = RFIMask.from_file(path)
    except Exception as exc:  # noqa: BLE001
        ctx.violation(f"roundtrip-raised:second-save:{type(exc).__name__}@{exc_site(exc)}", fmt_exc(exc), one)
        return
    for k in list(arrs) + ["chan_mask", "user_mask", "stats_mask", "custom_mask"]:
        a, b = np.asarray(getattr(m, k)), np.asarray(getattr(back2, k))
        if a.shape != b.shape or not np.array_equal(a, b):
            ctx.violation(f"roundtrip-array:{k}:saved-over-existing-file", f"{k} read back from a mask file that was saved a second time under the same name is the earlier version", one)
            return
    ctx.nontrivial_case(one)
