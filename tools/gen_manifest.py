#!/usr/bin/env python3
"""Regenerate MANIFEST.json from the CLAIM records of the monitor modules (no sigpyproc import needed)."""
import ast, glob, json, os, sys
ROOT = os.path.dirname(os.path.dirname(os.path.abspath(__file__)))
props = [json.loads(l) for l in open(os.path.join(ROOT, "properties.jsonl"))]
claims = {}
for path in sorted(glob.glob(os.path.join(ROOT, "monitors", "c[0-9][0-9]_*.py"))):
    tree = ast.parse(open(path).read())
    rec = {}
    for node in tree.body:
        if isinstance(node, ast.Assign) and len(node.targets) == 1 and isinstance(node.targets[0], ast.Name):
            if node.targets[0].id in ("PROPERTY", "LEVEL", "CLAIM"):
                rec[node.targets[0].id] = ast.literal_eval(node.value)
    if "CLAIM" in rec:
        claims[rec["PROPERTY"]] = rec
NA = json.load(open(os.path.join(ROOT, "tools", "not_applicable.json"))) if os.path.exists(os.path.join(ROOT, "tools", "not_applicable.json")) else {}
checks, na = [], []
for p in props:
    pid = p["id"]
    if pid in claims:
        c = claims[pid]["CLAIM"]
        checks.append({
            "property_id": pid,
            "quick_cmd": f"./check {pid} --tier quick",
            "thorough_cmd": f"./check {pid} --tier thorough",
            "evidence_file": f"evidence/{pid}.json",
            "replay_cmd_template": f"./check {pid} --replay {{path}}",
            "engine": "vlib",
            "level_claimed": {"category": claims[pid]["LEVEL"], "text": c["text"], "design_ref": c["design_ref"]},
            "level_note": c["note"],
            "technique": c["technique"],
        })
    else:
        na.append({"property_id": pid, "reason": NA.get(pid, "monitor not built yet (work in progress)")})
man = {
 "version": 1,
 "setup_cmd": "./check --setup",
 "hooks": {"guard": "SIGPYPROC_VERIF",
           "enable": "none needed: every monitor is installed from the harness by attribute patching (spies on FileReader/FileWriter/kernels/FoldedData/RFIMask); VERIF_REPO selects the tree (default /repo)",
           "baseline_off_cmd": "cd /repo && /venv/bin/python -m pytest -ra -q -p no:cacheprovider --timeout=900 --continue-on-collection-errors",
           "source_commits": [], "add_only": True},
 "engines": [{"name": "vlib", "path": "vlib/", "serves_properties": sorted(claims),
              "kind_free_text": "runtime-monitoring harness: sharded worker subprocesses drive the real sigpyproc code imported from /repo's working tree; reference-model oracles on API-boundary values, event-trace spies, red-zone canaries, bounds-checked re-JIT, schedule stress with a racy sensitivity probe, strace write logs, kill-point fault injection; three-valued verdicts"}],
 "checks": checks,
 "notes": "All checks: ./check <id> --tier quick|thorough (VERIF_SEED, VERIF_TIER honoured). Exit 0 = held on everything explored (KNOWN-FINDING lines possible), 1 = VIOLATION line + replay file under replays/, 2 = inconclusive (deciding monitor not reached / watchdog). Defects found and repaired are listed in known_findings.json.",
}
if na:
    man["not_applicable"] = na
json.dump(man, open(os.path.join(ROOT, "MANIFEST.json"), "w"), indent=1)
print(f"{len(checks)} checks, {len(na)} not claimed")
