#!/bin/bash
# usage: tools/sweep.sh <tier> <seed> [<seed> ...]   - runs every check for each seed, prints one line per run
cd "$(dirname "$0")/.."
tier=$1; shift
for sd in "$@"; do
  for i in $(seq -w 1 20); do
    out=$(VERIF_SEED=$sd ./check C$i --tier $tier 2>&1 | grep -v condarc)
    rc=$?
    line=$(echo "$out" | grep -E "^(HELD|VIOLATION|INCONCLUSIVE)" | head -2 | tr '\n' ' ')
    mech=$(echo "$out" | grep -E "mechanism=" | head -3 | cut -c1-200 | tr '\n' ' ')
    echo "seed=$sd C$i ${line:0:160} $mech"
  done
done
