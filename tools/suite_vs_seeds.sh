#!/bin/bash
# For every seeded change of the properties that have suite contracts: run the repository's own tests, with the contracts on,
# in a scratch worktree with the change applied, and record whether a contract fires (the tests themselves pass by construction).
# usage: tools/suite_vs_seeds.sh [lanes]   -> .work/suite_vs_seeds/<seed>.json , summary on stdout
cd "$(dirname "$0")/.."
ROOT=$PWD; OUT=$ROOT/.work/suite_vs_seeds; mkdir -p $OUT
one() {
  sid=$1; wt=$(mktemp -d /tmp/svs-XXXXXX); rmdir $wt
  git -C /repo worktree add -q --detach $wt HEAD || return
  cp -r /repo/sigpyproc.egg-info $wt/ 2>/dev/null
  p=$ROOT/seeded/$sid/patch.diff; [ -f $ROOT/seeded/$sid/patch_rebased.diff ] && p=$ROOT/seeded/$sid/patch_rebased.diff
  if git -C $wt apply $p 2>/dev/null; then
    (cd $wt && VERIF_SUITE_OUT=$OUT/$sid.json PYTHONPATH=$wt:$ROOT NUMBA_CACHE_DIR=$wt/.nb NUMBA_NUM_THREADS=2 nice /venv/bin/python -m pytest -q -p no:cacheprovider -p vlib.suite_plugin tests --timeout=900 >/dev/null 2>&1)
  else echo '{"violations": [], "counters": {}, "note": "patch does not apply to HEAD"}' > $OUT/$sid.json; fi
  git -C /repo worktree remove --force $wt; rm -rf $wt
}
export -f one; export ROOT OUT
ls seeded | grep -E '^(C01|C02|C03|C16|C20)' | xargs -P ${1:-3} -I{} bash -c 'one {}'
python3 - <<'P'
import json,glob,os
for f in sorted(glob.glob(os.environ.get("OUT", ".work/suite_vs_seeds")+"/*.json")):
    d=json.load(open(f)); sid=os.path.basename(f)[:-5]
    print(sid, sorted({v["mechanism"] for v in d["violations"] if v["property"]==sid[:3]}) or "-", d.get("note",""))
P
