#!/usr/bin/env python3
"""Print the per-property seed list used in DESIGN.md 7.6 (seed -> check that reports it, first mechanism label)."""
import glob, json, os, re
ROOT = os.path.dirname(os.path.dirname(os.path.abspath(__file__)))
by = {}
for d in sorted(x for x in glob.glob(os.path.join(ROOT, "seeded", "*")) if os.path.isdir(x)):
    m = json.load(open(os.path.join(d, "meta.json")))
    v = m.get("verification", {})
    mech = ""
    for p, c in list(v.get("checks", {}).items()) + list(v.get("checks_after_widening", {}).items()):
        if c["mechanisms"] and not mech:
            mech = re.split(r"[:\[]", c["mechanisms"][0].replace("mechanism=", ""))[0]
    sid = os.path.basename(d)
    by.setdefault(sid[:3], []).append(f"  * `{sid}` {(m.get('summary','') or '')[:100].strip()}... -> {','.join(v.get('caught_by', [])) or '-'} ({mech})")
def key(line):
    sid = line.split("`")[1]
    r = re.search(r"-r(\d+)-", sid)
    return (int(r.group(1)) if r else 1, sid)
for p in sorted(by):
    print(f"* **{p}**")
    for l in sorted(by[p], key=key):
        print(l)
