#!/usr/bin/env python3
"""List REQUIRED counters whose value in the last evidence file is small (a required regime must not be left to chance)."""
import sys, json, importlib, glob, os
ROOT = os.path.dirname(os.path.dirname(os.path.abspath(__file__)))
sys.path[:0] = [ROOT, os.environ.get("VERIF_REPO", "/repo")]
thr = int(sys.argv[1]) if len(sys.argv) > 1 else 15
for f in sorted(glob.glob(os.path.join(ROOT, "monitors", "c[0-9]*.py"))):
    mon = importlib.import_module("monitors." + os.path.basename(f)[:-3])
    ev = json.load(open(os.path.join(ROOT, "evidence", mon.PROPERTY + ".json")))
    c = ev["coverage"]["monitor_counters"]
    small = [(k, c.get(k, 0)) for k in mon.REQUIRED(ev["tier"]) if c.get(k, 0) < thr]
    print(mon.PROPERTY, ev["tier"], ev["seed"], small)
