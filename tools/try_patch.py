#!/usr/bin/env python3
"""Apply a patch to a scratch worktree of /repo (never to /repo itself), run checks against it via VERIF_REPO, clean up.

usage: tools/try_patch.py <patch.diff> <Cxx> [<Cyy> ...] [--tier quick|thorough] [--keep]
Prints one line per check: property, exit status, mechanisms reported.
"""
import os, shutil, subprocess, sys, tempfile

ROOT = os.path.dirname(os.path.dirname(os.path.abspath(__file__)))
args = [a for a in sys.argv[1:] if not a.startswith("--")]
tier = "quick"
if "--tier" in sys.argv:
    tier = sys.argv[sys.argv.index("--tier") + 1]
    args.remove(tier)
patch, props = os.path.abspath(args[0]), args[1:]
wt = tempfile.mkdtemp(prefix="vr-", dir="/tmp")
os.rmdir(wt)
subprocess.run(["git", "-C", "/repo", "worktree", "add", "-q", "--detach", wt, "HEAD"], check=True)
rc_all = 0
try:
    shutil.copytree("/repo/sigpyproc.egg-info", os.path.join(wt, "sigpyproc.egg-info"))
    r = subprocess.run(["git", "-C", wt, "apply", patch], capture_output=True, text=True)
    if r.returncode:
        print("PATCH DOES NOT APPLY:", r.stderr.strip()); sys.exit(3)
    env = dict(os.environ, VERIF_REPO=wt)
    for p in props:
        r = subprocess.run([os.path.join(ROOT, "check"), p, "--tier", tier], env=env, capture_output=True, text=True, cwd=ROOT)
        mech = [l.strip()[:220] for l in r.stdout.splitlines() if l.strip().startswith("mechanism=")]
        tail = [l for l in r.stdout.splitlines() if l.startswith(("HELD", "INCONCLUSIVE", "KNOWN-FINDING"))]
        print(f"{p}: exit={r.returncode} {'CAUGHT' if r.returncode == 1 else 'MISSED' if r.returncode == 0 else 'INCONCLUSIVE'}")
        for m in mech[:6]:
            print("   ", m)
        for t in tail[:3]:
            print("   ", t[:200])
        if r.returncode != 1:
            rc_all = 1
finally:
    if "--keep" not in sys.argv:
        subprocess.run(["git", "-C", "/repo", "worktree", "remove", "--force", wt])
        shutil.rmtree(wt, ignore_errors=True)
sys.exit(rc_all)
