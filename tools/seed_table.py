#!/usr/bin/env python3
"""Print a markdown table of the seeded changes under seeded/ (from their meta.json)."""
import glob, json, os
ROOT = os.path.dirname(os.path.dirname(os.path.abspath(__file__)))
rows = []
for d in sorted(x for x in glob.glob(os.path.join(ROOT, "seeded", "*")) if os.path.isdir(x)):
    m = json.load(open(os.path.join(d, "meta.json")))
    v = m.get("verification", {})
    mech = ""
    for p, c in v.get("checks", {}).items():
        if c["mechanisms"]:
            mech = c["mechanisms"][0].split(":", 1)[0].replace("mechanism=", "") if False else c["mechanisms"][0].replace("mechanism=", "")[:70]
    rows.append((os.path.basename(d), m.get("property", "?"), (m.get("summary", "") or "")[:150].replace("|", "/").replace("\n", " "),
                 (m.get("needs", "") or "")[:120].replace("|", "/").replace("\n", " "), ",".join(v.get("caught_by", [])) or "MISSED", mech.replace("|", "/")))
print("| seed | property | change | needs | caught by (quick) | first mechanism reported |")
print("|---|---|---|---|---|---|")
for r in rows:
    print("| " + " | ".join(r) + " |")
print(f"\n{len(rows)} seeded changes, {sum(1 for r in rows if r[4] != 'MISSED')} caught by a quick check (see meta.json of the others).")
