#!/bin/bash
# Line coverage of FRBs/sigpyproc3's Python code (numba-compiled kernel bodies are not traced) under the quick checks:
# shows which library code no monitor drives.  usage: tools/coverage_run.sh [Cxx ...]  -> .work/cov/report.txt
cd "$(dirname "$0")/.."
ROOT=$PWD
rm -rf .work/cov; mkdir -p .work/cov
cat > .work/cov/rc <<EOF
[run]
source = ${VERIF_REPO:-/repo}/sigpyproc
parallel = True
data_file = $ROOT/.work/cov/.coverage
concurrency = multiprocessing
sigterm = True
EOF
export COVERAGE_PROCESS_START=$ROOT/.work/cov/rc
props=${@:-C01 C02 C03 C04 C05 C06 C07 C08 C09 C10 C11 C12 C13 C14 C15 C16 C17 C18 C19 C20}
for c in $props; do ./check $c --tier quick 2>&1 | grep -E "^HELD|^VIOL|^INCON"; done
unset COVERAGE_PROCESS_START
cd .work/cov && /venv/bin/python -m coverage combine --rcfile=rc >/dev/null 2>&1; /venv/bin/python -m coverage report --rcfile=rc -m > report.txt 2>&1; tail -3 report.txt
