#!/usr/bin/env python3
"""Regression of the monitors against every kept seeded change: apply seeded/<id>/patch(.rebased).diff to a scratch worktree of /repo
(HEAD, or the commit recorded in meta.json when the patch no longer applies to HEAD), run the quick check(s) that meta.json lists
through VERIF_REPO, and report which still fire.  Nothing is written to seeded/; results go to .work/recheck/<id>.json and stdout.

usage: tools/recheck_seeds.py [--lanes N] [id-prefix ...]
"""
import concurrent.futures as cf, glob, json, os, shutil, subprocess, sys, tempfile

ROOT = os.path.dirname(os.path.dirname(os.path.abspath(__file__)))
args = sys.argv[1:]
lanes = 2
if args[:1] == ["--lanes"]:
    lanes = int(args[1]); args = args[2:]
OUT = os.path.join(ROOT, ".work", "recheck"); os.makedirs(OUT, exist_ok=True)


def one(sid):
    d = os.path.join(ROOT, "seeded", sid)
    meta = json.load(open(os.path.join(d, "meta.json")))
    ver = meta.get("verification", {})
    props = list(ver.get("checks", {})) or [meta.get("property", sid[:3])]
    patch = os.path.join(d, "patch_rebased.diff") if os.path.exists(os.path.join(d, "patch_rebased.diff")) else os.path.join(d, "patch.diff")
    rec = {"seed": sid, "props": props}
    for base in ("HEAD", ver.get("confirmed_at_repo_commit")):
        if not base:
            continue
        wt = tempfile.mkdtemp(prefix="rs-", dir="/tmp"); os.rmdir(wt)
        subprocess.run(["git", "-C", "/repo", "worktree", "add", "-q", "--detach", wt, base], check=True)
        try:
            if subprocess.run(["git", "-C", wt, "apply", patch], capture_output=True).returncode != 0:
                rec.setdefault("not_applicable_to", []).append(base)
                continue
            shutil.copytree("/repo/sigpyproc.egg-info", os.path.join(wt, "sigpyproc.egg-info"))
            rec["base"] = base
            rec["checks"] = {}
            for p in props:
                r = subprocess.run([os.path.join(ROOT, "check"), p, "--tier", "quick"], env=dict(os.environ, VERIF_REPO=wt), capture_output=True, text=True, cwd=ROOT)
                rec["checks"][p] = {"exit": r.returncode, "mechanisms": [l.strip()[:200] for l in r.stdout.splitlines() if l.strip().startswith("mechanism=")][:3]}
            break
        finally:
            subprocess.run(["git", "-C", "/repo", "worktree", "remove", "--force", wt], capture_output=True)
            shutil.rmtree(wt, ignore_errors=True)
    rec["caught"] = any(c["exit"] == 1 for c in rec.get("checks", {}).values())
    json.dump(rec, open(os.path.join(OUT, sid + ".json"), "w"), indent=1)
    return rec


ids = sorted(os.path.basename(x) for x in glob.glob(os.path.join(ROOT, "seeded", "*")) if os.path.isdir(x))
if args:
    ids = [i for i in ids if any(i.startswith(a) for a in args)]
if os.environ.get("RECHECK_RESUME"):
    ids = [i for i in ids if not os.path.exists(os.path.join(OUT, i + ".json"))]
with cf.ThreadPoolExecutor(lanes) as ex:
    for rec in ex.map(one, ids):
        first = next((m for c in rec.get("checks", {}).values() for m in c["mechanisms"]), "")
        print(f"{rec['seed']:10s} {'CAUGHT' if rec['caught'] else 'MISSED'} base={rec.get('base')} {first[:110]}", flush=True)
