#!/usr/bin/env python3
"""Confirm an independently produced property-breaking change and file it under /verif/seeded/<id>/.

usage: tools/confirm_seed.py <src_dir> <i> <seed_id> <Cxx> [<Cyy> ...]
  src_dir holds patch<i>.diff, demo<i>.py, meta<i>.json (written by a sub-agent that never saw /verif).
Steps (all in a scratch worktree of /repo outside /repo and /verif, removed afterwards):
  1. demo on the unmodified tree must exit 0;  2. patch must apply;  3. demo with the patch must exit != 0;
  4. the repository's test-suite must pass with the patch;  5. run our quick checks for the listed properties via VERIF_REPO.
"""
import json, os, shutil, subprocess, sys, tempfile, time

ROOT = os.path.dirname(os.path.dirname(os.path.abspath(__file__)))
src, i, sid, props = sys.argv[1], sys.argv[2], sys.argv[3], sys.argv[4:]
patch, demo, meta = (os.path.join(src, f"{n}{i}.{e}") for n, e in (("patch", "diff"), ("demo", "py"), ("meta", "json")))
wt = tempfile.mkdtemp(prefix="cs-", dir="/tmp"); os.rmdir(wt)
subprocess.run(["git", "-C", "/repo", "worktree", "add", "-q", "--detach", wt, os.environ.get("CONFIRM_BASE", "HEAD")], check=True)
rec = {"seed_id": sid, "confirmed_at_repo_commit": subprocess.run(["git", "-C", "/repo", "rev-parse", "--short", os.environ.get("CONFIRM_BASE", "HEAD")], capture_output=True, text=True).stdout.strip()}
try:
    shutil.copytree("/repo/sigpyproc.egg-info", os.path.join(wt, "sigpyproc.egg-info"))
    env = dict(os.environ, PYTHONPATH=wt, NUMBA_CACHE_DIR=os.path.join(wt, ".nbcache"), NUMBA_NUM_THREADS=os.environ.get("CONFIRM_THREADS", "4"))
    def run_demo():
        r = subprocess.run(["/venv/bin/python", demo], env=env, cwd=wt, capture_output=True, text=True, timeout=1800)
        return r.returncode, (r.stdout + r.stderr)[-600:]
    rc0, out0 = run_demo()
    rec["demo_unmodified_exit"] = rc0
    ap = subprocess.run(["git", "-C", wt, "apply", patch], capture_output=True, text=True)
    rec["patch_applies"] = ap.returncode == 0
    rc1, out1 = run_demo() if ap.returncode == 0 else (None, ap.stderr)
    rec["demo_patched_exit"] = rc1
    rec["demo_patched_output_tail"] = out1[-400:]
    t0 = time.time()
    ts = subprocess.run(["/venv/bin/python", "-m", "pytest", "-q", "-p", "no:cacheprovider", "tests", "--timeout=900",
                         "--deselect", "tests/test_utils.py::TestPaths::test_permission_validation", "--deselect", "tests/test_utils.py::TestPaths::test_read_permission"],
                        env=env, cwd=wt, capture_output=True, text=True)
    rec["testsuite_with_patch"] = ts.stdout.strip().splitlines()[-1] if ts.stdout.strip() else ts.stderr[-200:]
    rec["testsuite_passes"] = ts.returncode == 0
    shutil.rmtree(os.path.join(wt, ".nbcache"), ignore_errors=True)
    rec["checks"] = {}
    cenv = dict(os.environ, VERIF_REPO=wt)
    for p in props:
        r = subprocess.run([os.path.join(ROOT, "check"), p, "--tier", "quick"], env=cenv, capture_output=True, text=True, cwd=ROOT)
        rec["checks"][p] = {"exit": r.returncode, "mechanisms": [l.strip()[:260] for l in r.stdout.splitlines() if l.strip().startswith("mechanism=")][:5]}
    ok = rc0 == 0 and rec["patch_applies"] and rc1 not in (0, None) and rec["testsuite_passes"]
    rec["confirmed"] = ok
    rec["caught_by"] = [p for p, v in rec["checks"].items() if v["exit"] == 1]
    if ok:
        d = os.path.join(ROOT, "seeded", sid)
        os.makedirs(d, exist_ok=True)
        shutil.copy(patch, os.path.join(d, "patch.diff"))
        shutil.copy(demo, os.path.join(d, "demo.py"))
        m = json.load(open(meta)) if os.path.exists(meta) else {}
        m.update({"verification": rec, "what_we_ran": ["demo on unmodified scratch worktree", "git apply patch", "demo on patched worktree",
                                                     "full pytest suite on patched worktree", "./check <prop> --tier quick with VERIF_REPO=<patched worktree>"]})
        json.dump(m, open(os.path.join(d, "meta.json"), "w"), indent=1)
    print(json.dumps(rec, indent=1))
finally:
    subprocess.run(["git", "-C", "/repo", "worktree", "remove", "--force", wt])
    shutil.rmtree(wt, ignore_errors=True)
