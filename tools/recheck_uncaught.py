#!/usr/bin/env python3
"""For every kept seeded change of a round whose meta.json says no check caught it when it was confirmed, run the (since widened) quick
check of its property against the patch in a scratch worktree (VERIF_REPO) and record the outcome in meta.json under
verification.checks_after_widening.   usage: tools/recheck_uncaught.py r10 [--lanes N]"""
import concurrent.futures as cf, glob, json, os, shutil, subprocess, sys, tempfile

ROOT = os.path.dirname(os.path.dirname(os.path.abspath(__file__)))
tag = sys.argv[1]
lanes = int(sys.argv[sys.argv.index("--lanes") + 1]) if "--lanes" in sys.argv else 3


def one(d):
    mp = os.path.join(d, "meta.json"); m = json.load(open(mp)); ver = m.get("verification", {})
    if ver.get("caught_by"):
        return os.path.basename(d), "already", ver["caught_by"]
    prop = m.get("property") or os.path.basename(d)[:3]
    wt = tempfile.mkdtemp(prefix="ru-", dir="/tmp"); os.rmdir(wt)
    subprocess.run(["git", "-C", "/repo", "worktree", "add", "-q", "--detach", wt, "HEAD"], check=True)
    try:
        shutil.copytree("/repo/sigpyproc.egg-info", os.path.join(wt, "sigpyproc.egg-info"))
        subprocess.run(["git", "-C", wt, "apply", os.path.join(d, "patch.diff")], check=True)
        r = subprocess.run([os.path.join(ROOT, "check"), prop, "--tier", "quick"], env=dict(os.environ, VERIF_REPO=wt), capture_output=True, text=True, cwd=ROOT)
        mech = [l.strip()[:260] for l in r.stdout.splitlines() if l.strip().startswith("mechanism=")][:5]
        ver["checks_after_widening"] = {prop: {"exit": r.returncode, "mechanisms": mech}}
        if r.returncode == 1:
            ver["caught_by"] = [prop]
            m["verdict_of_the_checks"] = f"missed by the {prop} monitor as it stood when the change was confirmed; caught after the widening recorded in DESIGN.md 7.6 (round {tag[1:]})"
        m["verification"] = ver
        json.dump(m, open(mp, "w"), indent=1)
        return os.path.basename(d), r.returncode, mech[:1]
    finally:
        subprocess.run(["git", "-C", "/repo", "worktree", "remove", "--force", wt]); shutil.rmtree(wt, ignore_errors=True)


with cf.ThreadPoolExecutor(lanes) as ex:
    for res in ex.map(one, sorted(glob.glob(os.path.join(ROOT, "seeded", f"*-{tag}-*")))):
        print(*res)
