"""Driver: ./check <Cxx> [--tier quick|thorough] [--replay FILE] [--jobs N] | --setup

Shards a monitor's case stream over worker *subprocesses* (never
multiprocessing.Pool: a dead child would hang it), merges their JSON reports,
classifies violations against known_findings.json, writes evidence/<id>.json
and prints the verdict lines.

Exit status: 0 held (possibly with KNOWN-FINDING lines), 1 violation,
2 inconclusive (deciding monitor not reached / watchdog / worker could not run).
"""
from __future__ import annotations

import argparse
import glob
import importlib
import json
import os
import signal
import subprocess
import sys
import time

ROOT = os.environ.get("VERIF_ROOT") or os.path.dirname(os.path.dirname(os.path.abspath(__file__)))
REPO = os.environ.get("VERIF_REPO", "/repo")


def find_monitor(prop: str):
    hits = glob.glob(os.path.join(ROOT, "monitors", f"{prop.lower()}_*.py"))
    if len(hits) != 1:
        raise SystemExit(f"no unique monitor module for {prop}: {hits}")
    name = os.path.splitext(os.path.basename(hits[0]))[0]
    return importlib.import_module(f"monitors.{name}")


def check_import_origin():
    import sigpyproc

    origin = os.path.realpath(os.path.dirname(sigpyproc.__file__))
    want = os.path.realpath(os.path.join(REPO, "sigpyproc"))
    if origin != want:
        raise SystemExit(f"INCONCLUSIVE reason=sigpyproc imported from {origin}, not {want}")


# --------------------------------------------------------------------------
# worker
# --------------------------------------------------------------------------
def worker_main(args) -> int:
    import faulthandler

    faulthandler.enable()
    import warnings

    warnings.simplefilter("ignore")
    from vlib.core import Ctx, fmt_exc, tb_tail

    check_import_origin()
    mon = find_monitor(args.prop)
    ctx = Ctx(args.prop, args.tier, args.seed, args.shard, args.nshards)
    ctx.mode = args.mode
    journal = open(args.out + ".journal", "w")
    t0 = time.time()
    try:
        if hasattr(mon, "setup_worker"):
            mon.setup_worker(ctx)
        if args.mode == "optimised":
            # the quick case stream in an interpreter started with -O (assert statements and `if __debug__:` blocks compiled away)
            ctx.tier = "quick"
            gen = mon.cases("quick", args.seed)
        else:
            gen = mon.cases_boundscheck(args.tier, args.seed) if args.mode == "boundscheck" else mon.cases(args.tier, args.seed)
        budget = float(os.environ.get("VERIF_SHARD_BUDGET_S") or 0)
        for i, case in enumerate(gen):
            if i % args.nshards != args.shard:
                continue
            journal.seek(0)
            journal.write(json.dumps({"i": i, "case": case}, default=repr) + "\n")
            journal.truncate()
            journal.flush()
            ctx.cur_case = case
            audit_files = getattr(mon, "AUDIT_INPUT_FILES", False)
            if audit_files:
                from vlib import sigfile

                sigfile.forget_inputs()
            try:
                mon.run_case(case, ctx)
            except Exception as exc:  # harness bug or unexpected library error: never silently held
                if type(exc).__name__ == "HeaderError":
                    # the independent SIGPROC parser could not read a header the library had just written
                    ctx.violation("product-header-unparseable", f"a file written by the library does not start with a well-formed SIGPROC header: {fmt_exc(exc)}", case, tb=tb_tail(exc, 6))
                else:
                    ctx.violation(
                        f"harness-exception:{type(exc).__name__}",
                        f"unhandled exception while running case: {fmt_exc(exc)}",
                        case,
                        tb=tb_tail(exc, 6),
                    )
            if audit_files:
                ctx.count("input_file_audits", len(sigfile._INPUTS))
                for pth in sigfile.audit_inputs():
                    ctx.violation("input-file-modified", f"input file {os.path.basename(pth)} no longer holds the bytes that were written before the library was asked to read it", case)
            if budget and time.time() - t0 > budget:
                ctx.notes["budget_cut_at_case"] = i
                break
        if hasattr(mon, "finish"):
            mon.finish(ctx)
    finally:
        ctx.cleanup()
    ctx.notes["wall_s"] = time.time() - t0
    with open(args.out, "w") as fh:
        json.dump(ctx.to_json(), fh)
    journal.close()
    os.unlink(args.out + ".journal")
    return 0


# --------------------------------------------------------------------------
# parent
# --------------------------------------------------------------------------
def load_findings():
    path = os.path.join(ROOT, "known_findings.json")
    if not os.path.exists(path):
        return []
    with open(path) as fh:
        return json.load(fh).get("findings", [])


def run_workers(prop, tier, seed, jobs, mode, timeout_s, extra_env=None):
    workdir = os.path.join(ROOT, ".work")
    os.makedirs(workdir, exist_ok=True)
    procs = []
    env = dict(os.environ)
    # 16 worker processes x 16 OpenMP threads would oversubscribe the machine: monitors other than the
    # schedule sweep (C19) keep the parallel code path alive with 2 threads per worker.
    mon = find_monitor(prop)
    env.setdefault("NUMBA_NUM_THREADS", str(getattr(mon, "NUMBA_THREADS", 2)))
    env.setdefault("OMP_WAIT_POLICY", "passive")
    env.setdefault("OMP_NUM_THREADS", env["NUMBA_NUM_THREADS"])
    env.setdefault("OPENBLAS_NUM_THREADS", "1")
    if extra_env:
        env.update(extra_env)
    for shard in range(jobs):
        out = os.path.join(workdir, f"{prop}-{mode}-{os.getpid()}-{shard}.json")
        for p in (out, out + ".journal"):
            if os.path.exists(p):
                os.unlink(p)
        cmd = [
            sys.executable, *(["-O"] if mode == "optimised" else []), "-X", "faulthandler", "-m", "vlib.main", prop, "--worker",
            "--tier", tier, "--seed", str(seed), "--shard", str(shard),
            "--nshards", str(jobs), "--out", out, "--mode", mode,
        ]
        log = open(out + ".log", "w")
        procs.append((shard, out, log, subprocess.Popen(cmd, env=env, stdout=log, stderr=subprocess.STDOUT, cwd=ROOT)))
    deadline = time.time() + timeout_s
    results, problems = [], []
    for shard, out, log, proc in procs:
        remaining = max(1.0, deadline - time.time())
        try:
            rc = proc.wait(timeout=remaining)
        except subprocess.TimeoutExpired:
            proc.kill()
            proc.wait()
            rc = None
        log.close()
        logtxt = open(out + ".log").read()[-3000:]
        if rc is None:
            problems.append({"kind": "watchdog", "shard": shard, "mode": mode})
        elif rc != 0 or not os.path.exists(out):
            last = None
            if os.path.exists(out + ".journal"):
                try:
                    last = json.loads(open(out + ".journal").read().strip() or "null")
                except Exception:
                    last = None
            problems.append({"kind": "crash", "shard": shard, "mode": mode, "rc": rc, "last_case": last, "log": logtxt})
        else:
            with open(out) as fh:
                results.append(json.load(fh))
        for p in (out, out + ".journal", out + ".log"):
            if os.path.exists(p):
                os.unlink(p)
    return results, problems


def run_suite_with_contracts(prop):
    """The repository's own tests as a second workload, with vlib.suite_plugin's contracts recording (thorough tier)."""
    workdir = os.path.join(ROOT, ".work")
    os.makedirs(workdir, exist_ok=True)
    out = os.path.join(workdir, f"suite-{prop}-{os.getpid()}.json")
    env = dict(os.environ, VERIF_SUITE_OUT=out)
    env.setdefault("NUMBA_NUM_THREADS", "4")
    cmd = [sys.executable, "-m", "pytest", "-q", "-p", "no:cacheprovider", "-p", "vlib.suite_plugin", "--timeout=900", os.path.join(REPO, "tests")]
    try:
        r = subprocess.run(cmd, env=env, cwd=REPO, capture_output=True, text=True, timeout=3600)
    except subprocess.TimeoutExpired:
        return None, "test-suite under contracts hit the 3600 s watchdog"
    if not os.path.exists(out):
        return None, f"test-suite under contracts wrote no report: {(r.stdout + r.stderr)[-400:]}"
    with open(out) as fh:
        rep = json.load(fh)
    os.unlink(out)
    cnt = {f"suite:{k.split(':', 1)[1]}": v for k, v in rep["counters"].items() if k.startswith(prop + ":") and not k.endswith(":violations")}
    cnt["suite:tests_passed"] = rep["counters"].get("tests_passed", 0)
    viol = [{"mechanism": v["mechanism"], "what": v["what"], "case": v["case"]} for v in rep["violations"] if v["property"] == prop]
    return {"evaluations": sum(v for k, v in cnt.items() if k.endswith("_checks")), "counters": cnt, "nontrivial": [], "violations": viol, "nviolations": len(viol),
            "samples": [], "skipped": {}, "notes": {"suite_last_line": (r.stdout.strip().splitlines() or [""])[-1]}}, None


def merge(results):
    from collections import Counter

    tot = {"evaluations": 0, "counters": Counter(), "nontrivial": set(), "violations": [], "nviolations": 0,
           "samples": [], "skipped": Counter(), "notes": []}
    for r in results:
        tot["evaluations"] += r["evaluations"]
        tot["counters"].update(r["counters"])
        tot["nontrivial"].update(r["nontrivial"])
        tot["violations"].extend(r["violations"])
        tot["nviolations"] += r["nviolations"]
        if len(tot["samples"]) < 6:
            tot["samples"].extend(r["samples"][:2])
        tot["skipped"].update(r["skipped"])
        tot["notes"].append(r.get("notes", {}))
    return tot


def write_replay(prop, viol):
    from vlib.core import case_hash

    d = os.path.join(ROOT, "replays")
    os.makedirs(d, exist_ok=True)
    h = case_hash({"c": viol.get("case"), "m": viol.get("mechanism")})
    path = os.path.join(d, f"{prop}-{h}.json")
    with open(path, "w") as fh:
        json.dump({"property": prop, **viol}, fh, indent=1)
    return path


def classify(prop, violations, findings):
    """Split violations into (known: {finding-key: [viol]}, new: [viol])."""
    open_f = [f for f in findings if f.get("status") == "open" and f.get("property") == prop]
    known, new = {}, []
    for v in violations:
        hit = None
        for f in open_f:
            if v["mechanism"] == f["mechanism"]:
                hit = f
                break
        if hit is None:
            new.append(v)
        else:
            known.setdefault(hit["mechanism"], {"finding": hit, "n": 0})["n"] += 1
    return known, new


def parent_main(args) -> int:
    from vlib import evidence

    prop = args.prop
    tier = args.tier
    seed = args.seed
    mon = find_monitor(prop)
    t0 = time.time()
    jobs = args.jobs or int(os.environ.get("VERIF_JOBS", "0")) or min(16, os.cpu_count() or 4)
    jobs = min(jobs, getattr(mon, "MAX_JOBS", 16))
    timeout_s = float(os.environ.get("VERIF_WATCHDOG_S") or (1500 if tier == "quick" else 6 * 3600))

    results, problems = run_workers(prop, tier, seed, jobs, "normal", timeout_s)
    modes = ["normal"]
    if hasattr(mon, "cases_boundscheck") and tier in getattr(mon, "BOUNDSCHECK_TIERS", ("thorough",)):
        r2, p2 = run_workers(
            prop, tier, seed, jobs, "boundscheck", timeout_s,
            extra_env={"NUMBA_BOUNDSCHECK": "1", "NUMBA_CACHE_DIR": os.path.join(ROOT, ".cache", "numba-bc")},
        )
        for r in r2:
            r["counters"] = {f"bc:{k}": v for k, v in r["counters"].items()}
            r["nontrivial"] = []
        results += r2
        problems += p2
        modes.append("boundscheck")
    if tier == "thorough" and getattr(mon, "OPTIMISED_PASS", True) and not os.environ.get("VERIF_NO_OPT_PASS"):
        # third pass: the quick workload under `python -O` (PYTHONOPTIMIZE is inherited by every child the monitor starts)
        r4, p4 = run_workers(prop, tier, seed, jobs, "optimised", timeout_s, extra_env={"PYTHONOPTIMIZE": "1"})
        for r in r4:
            r["counters"] = {f"opt:{k}": v for k, v in r["counters"].items()}
            r["counters"]["opt:evaluations_under_python_O"] = r["evaluations"]
            r["nontrivial"] = []
            for v in r["violations"]:
                v.setdefault("detail", {})["interpreter"] = "python -O"
        results += r4
        problems += p4
        modes.append("python-O")
    if getattr(mon, "SUITE_CONTRACTS", False) and tier == "thorough":
        r3, why = run_suite_with_contracts(prop)
        if r3 is not None:
            results.append(r3)
            modes.append("repo-test-suite-with-contracts")
        else:
            problems.append({"kind": "suite", "shard": -1, "mode": "suite", "rc": 0, "log": why})
    tot = merge(results)

    # worker deaths: a signal death is a crash witness (violation); a watchdog is inconclusive
    inconclusive = []
    for p in problems:
        if p["kind"] == "watchdog":
            inconclusive.append(f"watchdog fired on shard {p['shard']} ({p['mode']})")
        else:
            rc = p.get("rc")
            if rc is not None and rc < 0:
                tot["violations"].append({
                    "mechanism": f"crash:signal{-rc}",
                    "what": f"worker died with signal {-rc} ({signal.Signals(-rc).name}) while running a case",
                    "case": (p.get("last_case") or {}).get("case"),
                    "detail": {"log_tail": p.get("log", "")[-1500:], "mode": p["mode"]},
                })
                tot["nviolations"] += 1
            else:
                inconclusive.append(f"worker shard {p['shard']} ({p['mode']}) exited rc={rc}: {p.get('log','')[-600:]}")

    required = list(mon.REQUIRED(tier)) if hasattr(mon, "REQUIRED") else []
    for name in required:
        if tot["counters"].get(name, 0) <= 0:
            inconclusive.append(f"required monitor/regime counter '{name}' stayed at zero")
    if "python-O" in modes and tot["counters"].get("opt:evaluations_under_python_O", 0) <= 0:
        inconclusive.append("the pass under python -O performed no evaluations")
    if tot["evaluations"] == 0:
        inconclusive.append("no evaluations performed")

    findings = load_findings()
    known, new = classify(prop, tot["violations"], findings)

    wall = time.time() - t0
    evidence.write(
        ROOT, mon, prop, tier, seed, tot, wall,
        known={k: v["n"] for k, v in known.items()}, new=len(new), inconclusive=inconclusive,
        jobs=jobs, modes=modes, repo=REPO,
    )

    for k, v in known.items():
        print(f"KNOWN-FINDING: property={prop} {v['finding'].get('what', k)} [mechanism={k}; {v['n']} witnesses this run]")
    if new:
        seen = set()
        for v in new:
            if v["mechanism"] in seen:
                continue
            seen.add(v["mechanism"])
            path = write_replay(prop, v)
            print(f"VIOLATION property={prop} replay={path}")
            print(f"  mechanism={v['mechanism']}: {v['what'][:300]}")
        print(f"  ({len(new)} violating observations, {len(seen)} distinct mechanisms; evaluations={tot['evaluations']})")
        return 1
    if inconclusive:
        for why in inconclusive:
            print(f"INCONCLUSIVE property={prop} reason={why}")
        return 2
    print(
        f"HELD property={prop} tier={tier} seed={seed} evaluations={tot['evaluations']} "
        f"distinct_nontrivial={len(tot['nontrivial'])} wall_s={wall:.1f}"
    )
    return 0


def replay_main(args) -> int:
    import warnings

    warnings.simplefilter("ignore")
    from vlib.core import Ctx

    check_import_origin()
    mon = find_monitor(args.prop)
    with open(args.replay) as fh:
        rec = json.load(fh)
    case = rec["case"]
    if (rec.get("detail") or {}).get("interpreter") == "python -O" and not sys.flags.optimize:
        # the witness was observed in an optimised interpreter: replay it in one
        os.environ["PYTHONOPTIMIZE"] = "1"
        os.execv(sys.executable, [sys.executable, "-O", "-m", "vlib.main", *sys.argv[1:]])
    if isinstance(case, dict) and "suite_test" in case:
        # a contract fired while the repository's own test ran: re-run that test under the contracts
        out = os.path.join(ROOT, ".work", f"suite-replay-{os.getpid()}.json")
        os.makedirs(os.path.dirname(out), exist_ok=True)
        subprocess.run([sys.executable, "-m", "pytest", "-q", "-p", "no:cacheprovider", "-p", "vlib.suite_plugin", os.path.join(REPO, case["suite_test"])],
                       env=dict(os.environ, VERIF_SUITE_OUT=out), cwd=REPO, capture_output=True, text=True, timeout=3600)
        rep = json.load(open(out)) if os.path.exists(out) else {"violations": []}
        hit = [v for v in rep["violations"] if v["property"] == args.prop]
        for v in hit[:5]:
            print(f"VIOLATION property={args.prop} replay={args.replay}")
            print(f"  mechanism={v['mechanism']}: {v['what'][:400]}")
        if not hit:
            print("replay: no violation reproduced")
        return 1 if hit else 0
    ctx = Ctx(args.prop, args.tier, args.seed, 0, 1)
    ctx.mode = "normal"
    try:
        if hasattr(mon, "setup_worker"):
            mon.setup_worker(ctx)
        ctx.cur_case = case
        mon.run_case(case, ctx)
    finally:
        ctx.cleanup()
    findings = load_findings()
    known, new = classify(args.prop, ctx.violations, findings)
    for k, v in known.items():
        print(f"KNOWN-FINDING: property={args.prop} {v['finding'].get('what', k)} [mechanism={k}]")
    if new:
        for v in new[:5]:
            print(f"VIOLATION property={args.prop} replay={args.replay}")
            print(f"  mechanism={v['mechanism']}: {v['what'][:400]}")
            print(f"  detail={json.dumps(v['detail'])[:1500]}")
        return 1
    print(f"replay: no violation reproduced (evaluations={ctx.evaluations})")
    return 0


def setup_main() -> int:
    """Verify the toolchain and warm the numba cache for the current tree."""
    t0 = time.time()
    import numpy, numba, astropy, h5py, bottleneck, rocket_fft  # noqa: F401,E401

    check_import_origin()
    try:
        out = subprocess.run(["strace", "-V"], capture_output=True, text=True, timeout=20)
        print("strace:", out.stdout.splitlines()[0] if out.stdout else out.stderr[:100])
    except Exception as exc:  # noqa: BLE001
        print("WARNING strace not runnable:", exc)
    from vlib import warm

    warm.warm_all()
    print(f"setup ok in {time.time() - t0:.1f}s (numba cache {os.environ.get('NUMBA_CACHE_DIR')})")
    return 0


def main(argv=None) -> int:
    ap = argparse.ArgumentParser()
    ap.add_argument("prop", nargs="?")
    ap.add_argument("--tier", default=os.environ.get("VERIF_TIER", "quick"), choices=["quick", "thorough"])
    ap.add_argument("--seed", type=int, default=int(os.environ.get("VERIF_SEED", "0") or 0))
    ap.add_argument("--replay")
    ap.add_argument("--setup", action="store_true")
    ap.add_argument("--jobs", type=int, default=0)
    ap.add_argument("--worker", action="store_true")
    ap.add_argument("--shard", type=int, default=0)
    ap.add_argument("--nshards", type=int, default=1)
    ap.add_argument("--out")
    ap.add_argument("--mode", default="normal")
    args = ap.parse_args(argv)
    if args.setup:
        return setup_main()
    if not args.prop:
        ap.error("property id required")
    args.prop = args.prop.upper()
    if args.worker:
        return worker_main(args)
    if args.replay:
        return replay_main(args)
    return parent_main(args)


if __name__ == "__main__":
    sys.exit(main())
