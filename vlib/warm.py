"""Warm the numba cache for the current tree: run one case of every kind of every monitor in-process."""
from __future__ import annotations

import glob
import importlib
import os
import time
import warnings


def warm_all(verbose=True):
    warnings.simplefilter("ignore")
    from vlib.core import Ctx

    root = os.environ.get("VERIF_ROOT") or os.path.dirname(os.path.dirname(os.path.abspath(__file__)))
    for path in sorted(glob.glob(os.path.join(root, "monitors", "c[0-9][0-9]_*.py"))):
        name = os.path.splitext(os.path.basename(path))[0]
        if name.startswith("c20"):
            continue  # spawns children / strace: nothing to compile that C07 does not already cover
        t0 = time.time()
        mon = importlib.import_module(f"monitors.{name}")
        ctx = Ctx(mon.PROPERTY, "quick", 0, 0, 1)
        ctx.mode = "normal"
        seen, ran = set(), 0
        try:
            if hasattr(mon, "setup_worker"):
                mon.setup_worker(ctx)
            for case in mon.cases("quick", 0):
                key = tuple(str(case.get(k)) for k in ("kind", "t", "kernel", "api", "path", "cls", "mode") if k in case)
                if case.get("kernel") and case.get("shape") not in (None, "tiny"):
                    continue
                if key in seen:
                    continue
                seen.add(key)
                for k in ("reps",):
                    if isinstance(case.get(k), int):
                        case = dict(case, **{k: min(case[k], 2)})
                ctx.cur_case = case
                try:
                    mon.run_case(case, ctx)
                except Exception as exc:  # noqa: BLE001
                    print(f"  warm {name}: {type(exc).__name__}: {exc}")
                ran += 1
                if ran >= 25 or time.time() - t0 > 30:
                    break
        finally:
            ctx.cleanup()
        if verbose:
            print(f"  warmed {name}: {ran} cases in {time.time() - t0:.1f}s")
