"""Warm the numba cache for the current tree by touching every kernel once."""
def warm_all():
    import sigpyproc.readers  # noqa: F401
    import sigpyproc.core.kernels  # noqa: F401
