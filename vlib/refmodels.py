"""Reference semantics in float64 / Python ints (no numba, nothing from sigpyproc)."""
from __future__ import annotations

import numpy as np

DM_CONST = 4.148808e3


def dm_delay_exact(freqs, dm, tsamp, fref):
    """Unrounded delay in samples, float64."""
    f = np.asarray(freqs, dtype=np.float64)
    return DM_CONST * float(dm) * (f ** -2.0 - float(fref) ** -2.0) / float(tsamp)


def moments_two_pass(x: np.ndarray) -> dict:
    """x (n, nchans) -> population moments per channel in float64."""
    x = np.asarray(x, dtype=np.float64)
    n = x.shape[0]
    mean = x.mean(axis=0)
    d = x - mean
    m2 = (d ** 2).sum(axis=0)
    m3 = (d ** 3).sum(axis=0)
    m4 = (d ** 4).sum(axis=0)
    var = m2 / n
    with np.errstate(all="ignore"):
        skew = np.where(m2 > 0, (m3 / n) / np.power(var, 1.5), 0.0)
        kurt = np.where(m2 > 0, (m4 / n) / (var ** 2) - 3.0, np.nan)
    return {"count": n, "mean": mean, "var": var, "skew": skew, "kurtosis": kurt, "min": x.min(axis=0), "max": x.max(axis=0), "m2": m2}


def dedisperse_sum(x: np.ndarray, delays: np.ndarray, nout: int) -> np.ndarray:
    """x (n, nchans); out[t] = sum_c x[t+delay_c, c], t < nout; every index must exist."""
    n, nch = x.shape
    out = np.zeros(nout, dtype=np.float64)
    for c in range(nch):
        d = int(delays[c])
        if d < 0 or nout + d > n:
            raise IndexError("oracle index out of range")
        out += x[d : d + nout, c]
    return out


def reflect_index(i: int, n: int) -> int:
    """Symmetric (edge-repeating) reflection with period 2n."""
    p = 2 * n
    i %= p
    return i if i < n else p - 1 - i


def running_filter_ref(x, w: int, method: str) -> np.ndarray:
    x = np.asarray(x, dtype=np.float64)
    n = x.size
    out = np.empty(n)
    lo = w // 2
    for i in range(n):
        win = [x[reflect_index(j, n)] for j in range(i - lo, i - lo + w)]
        out[i] = np.mean(win) if method == "mean" else np.median(win)
    return out


def fold_bins(nsamps_fold, index0, tsamp32, period32, accel32, total_nsamps, nbins, nints):
    """Phase model in float64 from float32-rounded parameters.  Returns (phasebin, subint, ambiguous mask)."""
    c = 299792458.0
    t = (np.arange(nsamps_fold, dtype=np.float64) + index0)
    tj = t * np.float64(tsamp32)
    tobs = total_nsamps * np.float64(tsamp32)
    phase = nbins * tj * (1 + np.float64(accel32) * (tj - tobs) / (2 * c)) / np.float64(period32) + 0.5
    frac = np.abs(phase - np.round(phase))
    ambiguous = frac < 1e-4 * np.maximum(1.0, np.abs(phase)) * 1e-2 + 1e-6
    phasebin = np.abs(np.trunc(phase)).astype(np.int64) % nbins
    factor1 = total_nsamps / nints
    subint = np.floor(t / factor1).astype(np.int64)
    return phasebin, subint, ambiguous, phase
