"""Offline append-only audit over an `strace -f -y -xx -s <big>` log.

Models one offset per open file description (dup'ed descriptors share it: numpy's tofile writes through an
fcntl(F_DUPFD_CLOEXEC) duplicate and restores the position with lseek).  For every audited output path:
  * the first write is the complete SIGPROC header in one syscall;
  * every later write lands exactly at the current end of file;
  * no pwrite below EOF, no ftruncate/fallocate/rename/unlink on the path, no writable shared mmap;
  * the concatenated payloads equal the final file.
"""
from __future__ import annotations

import re

from vlib import sigfile

_PID = re.compile(r"^(?:\[pid\s+(\d+)\]\s+|(\d+)\s+)?(.*)$")
_FD = r"(\d+)<([^>]*)>"


def _hex_payload(tok: str) -> bytes:
    # "\x48\x45..." possibly followed by "..." when truncated
    body = tok.strip()
    if body.endswith("..."):
        raise ValueError("payload truncated by strace -s limit")
    body = body.strip('"')
    return bytes(int(h, 16) for h in re.findall(r"\\x([0-9a-fA-F]{2})", body))


def _dehex(text: str) -> str:
    return re.sub(r"\\x([0-9a-fA-F]{2})", lambda m: chr(int(m.group(1), 16)), text)


def _decode_annotations(line: str) -> str:
    """With -xx strace prints descriptor paths (<...>) and path arguments hex-escaped too: decode those, keep payloads."""
    line = re.sub(r"<((?:\\x[0-9a-fA-F]{2})+)>", lambda m: "<" + _dehex(m.group(1)) + ">", line)
    m = re.match(r"((?:\[pid\s+\d+\]\s+|\d+\s+)?(?:open|openat|rename|renameat|renameat2|unlink|unlinkat)\()(.*)$", line)
    if m:
        line = m.group(1) + re.sub(r'"((?:\\x[0-9a-fA-F]{2})*)"', lambda q: '"' + _dehex(q.group(1)) + '"', m.group(2))
    return line


class Audit:
    def __init__(self, out_paths):
        self.paths = {p: {"size": 0, "payload": bytearray(), "writes": 0, "first": None} for p in out_paths}
        self.fd2ofd: dict[tuple[str, int], int] = {}
        self.ofd_off: dict[int, int] = {}
        self.ofd_path: dict[int, str] = {}
        self.next_ofd = 0
        self.problems: list[str] = []
        self.events = 0
        self.syscalls = {}

    def _pid(self, line):
        m = _PID.match(line)
        pid = m.group(1) or m.group(2) or "0"
        return pid, m.group(3)

    def feed(self, text: str):
        pending = {}
        for raw in text.splitlines():
            pid, line = self._pid(_decode_annotations(raw.strip()))
            if "<unfinished ...>" in line:
                pending[pid] = line.replace("<unfinished ...>", "")
                continue
            m = re.match(r"<\.\.\. (\w+) resumed>(.*)", line)
            if m:
                line = pending.pop(pid, "") + m.group(2)
            self._line("0", line)  # threads of one process share the descriptor table

    def _line(self, pid, line):
        m = re.match(r"(\w+)\((.*)\)\s*=\s*(-?\d+|\?)(.*)$", line)
        if not m:
            return
        name, args, ret, rest = m.group(1), m.group(2), m.group(3), m.group(4)
        if ret == "?":
            return
        ret = int(ret)
        self.syscalls[name] = self.syscalls.get(name, 0) + 1
        if name in ("openat", "open"):
            mm = re.search(r'"([^"]*)"', args)
            rp = re.match(r"<([^>]*)>", rest)
            if ret >= 0 and mm:
                path = rp.group(1) if rp else mm.group(1)
                ofd = self.next_ofd
                self.next_ofd += 1
                self.fd2ofd[(pid, ret)] = ofd
                self.ofd_off[ofd] = 0
                self.ofd_path[ofd] = path
                if path in self.paths and "O_TRUNC" in args:
                    if self.paths[path]["size"]:
                        self.problems.append(f"{path}: reopened with O_TRUNC after {self.paths[path]['size']} bytes had been written")
                    self.paths[path].update(size=0, payload=bytearray(), writes=0, first=None)
                if path in self.paths and "O_APPEND" in args:
                    pass
            return
        fdm = re.match(_FD, args)
        if name in ("dup", "dup2", "dup3") or (name == "fcntl" and "F_DUPFD" in args):
            if fdm and ret >= 0:
                src = (pid, int(fdm.group(1)))
                if src in self.fd2ofd:
                    self.fd2ofd[(pid, ret)] = self.fd2ofd[src]
            return
        if name == "close":
            if fdm:
                self.fd2ofd.pop((pid, int(fdm.group(1))), None)
            return
        if name in ("rename", "renameat", "renameat2", "unlink", "unlinkat"):
            for p in self.paths:
                if p in args and ret == 0:
                    self.problems.append(f"{name} touches output path {p}")
            return
        if not fdm:
            return
        fd, path = int(fdm.group(1)), fdm.group(2)
        ofd = self.fd2ofd.get((pid, fd))
        if path not in self.paths:
            return
        st = self.paths[path]
        self.events += 1
        if ofd is None:  # descriptor inherited / not seen: model it on first use
            ofd = self.next_ofd
            self.next_ofd += 1
            self.fd2ofd[(pid, fd)] = ofd
            self.ofd_off[ofd] = 0
        if name == "lseek":
            if ret >= 0:
                self.ofd_off[ofd] = ret
            return
        if name in ("ftruncate", "fallocate"):
            self.problems.append(f"{path}: {name}({args.split(',', 1)[1].strip() if ',' in args else ''})")
            return
        if name == "mmap":
            if "PROT_WRITE" in args and "MAP_SHARED" in args:
                self.problems.append(f"{path}: writable shared mmap")
            return
        if name in ("write", "pwrite64"):
            if ret < 0:
                return
            parts = args.split(", ")
            try:
                payload = _hex_payload(parts[1])[:ret]
            except Exception as exc:  # noqa: BLE001
                self.problems.append(f"{path}: cannot decode payload ({exc})")
                payload = b"\0" * ret
            if name == "pwrite64":
                off = int(parts[-1])
            else:
                off = self.ofd_off[ofd]
            if off != st["size"]:
                self.problems.append(f"{path}: {name} of {ret} bytes at offset {off} but the file is {st['size']} bytes long (not an append)")
            if st["writes"] == 0:
                st["first"] = payload
                try:
                    items, hl = sigfile.parse_header(payload)
                    if hl != len(payload):
                        self.problems.append(f"{path}: first write holds {len(payload)} bytes but the header is {hl} bytes (data mixed into the header write or header split)")
                except Exception as exc:  # noqa: BLE001
                    self.problems.append(f"{path}: first write is not a complete SIGPROC header ({exc})")
            st["writes"] += 1
            end = off + ret
            if off <= st["size"]:
                buf = st["payload"]
                if off < len(buf):
                    buf[off:end] = payload
                else:
                    buf.extend(payload)
            st["size"] = max(st["size"], end)
            if name == "write":
                self.ofd_off[ofd] = end
            return
        if name in ("pwritev", "writev", "pwritev2", "sendfile", "copy_file_range"):
            self.problems.append(f"{path}: unsupported write-like syscall {name} (cannot audit)")

    def finish(self, final_bytes: dict):
        for p, st in self.paths.items():
            if st["writes"] == 0:
                self.problems.append(f"{p}: no write syscall observed")
                continue
            if bytes(st["payload"]) != final_bytes.get(p):
                self.problems.append(f"{p}: concatenated write payloads ({len(st['payload'])} bytes) differ from the final file ({len(final_bytes.get(p, b''))} bytes)")
        return self.problems
