"""Red-zone framed arrays: the ASan idea (poisoned guard zones around heap objects) done portably.

``Frame.alloc(n, dtype)`` returns a C-contiguous view ``big[pad:pad+n]`` of a larger
buffer whose guard zones are filled with a poison pattern.  ``Frame.audit()`` reports
every guard byte that changed (= out-of-bounds store).  Because input guards hold poison
(0xA5 for integers, a NaN payload for floats), an out-of-bounds *load* perturbs the result
and is caught by the value oracle; ``leaked(out)`` additionally searches outputs for poison.
"""
from __future__ import annotations

import numpy as np

PAD_BYTES = 4096
POISON_BYTE = 0xA5
F32_POISON = np.array([0x7FA5A5A5], dtype=np.uint32).view(np.float32)[0]  # NaN with payload


class Frame:
    def __init__(self, rng: np.random.Generator | None = None):
        self.rng = rng
        self.items: list[tuple[str, np.ndarray, int, int, bytes]] = []

    def alloc(self, n: int, dtype, name: str = "", fill=None) -> np.ndarray:
        dtype = np.dtype(dtype)
        extra = int(self.rng.integers(0, 64)) * dtype.itemsize if self.rng is not None else 0
        pad = (PAD_BYTES // dtype.itemsize) * dtype.itemsize + extra
        nbytes = n * dtype.itemsize
        raw = np.empty(pad + nbytes + pad, dtype=np.uint8)
        if dtype.kind == "f" and dtype.itemsize == 4:
            raw[: pad].view(np.uint32)[:] = 0x7FA5A5A5
            raw[pad + nbytes :][: (pad // 4) * 4].view(np.uint32)[:] = 0x7FA5A5A5
        else:
            raw[:pad] = POISON_BYTE
            raw[pad + nbytes :] = POISON_BYTE
        view = raw[pad : pad + nbytes].view(dtype)
        if fill is not None:
            view[...] = fill
        self.items.append((name or f"a{len(self.items)}", raw, pad, nbytes, raw[:pad].tobytes() + raw[pad + nbytes :].tobytes()))
        return view

    def like(self, arr: np.ndarray, name: str = "") -> np.ndarray:
        """Framed copy of ``arr`` (same shape, C order)."""
        arr = np.ascontiguousarray(arr)
        if arr.dtype.fields is not None:
            flat = self.alloc(arr.size * arr.dtype.itemsize, np.uint8, name)
            flat[...] = arr.view(np.uint8).ravel()
            return flat.view(arr.dtype).reshape(arr.shape)
        v = self.alloc(arr.size, arr.dtype, name)
        v[...] = arr.ravel()
        return v.reshape(arr.shape)

    def audit(self) -> list[dict]:
        """Return a list of guard-zone corruptions (empty = all canaries intact)."""
        bad = []
        for name, raw, pad, nbytes, guard in self.items:
            now = raw[:pad].tobytes() + raw[pad + nbytes :].tobytes()
            if now != guard:
                a = np.frombuffer(now, dtype=np.uint8)
                b = np.frombuffer(guard, dtype=np.uint8)
                idx = np.flatnonzero(a != b)
                first = int(idx[0])
                rel = first - pad if first < pad else first - pad  # offset relative to array start/end
                where = "before" if first < pad else "after"
                bad.append({"array": name, "guard": where, "bytes_changed": int(idx.size),
                            "first_offset_from_edge": int(pad - first if first < pad else first - pad)})
        return bad


def leaked(out: np.ndarray) -> bool:
    """True if the float32 poison NaN payload shows up in an output array."""
    out = np.asarray(out)
    if out.dtype == np.float32:
        return bool(np.any(out.view(np.uint32) == 0x7FA5A5A5))
    return False
