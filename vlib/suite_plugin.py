"""pytest plugin: run the repository's own test-suite with the monitors' contracts switched on.

    PYTHONPATH=/verif:<repo> pytest -p vlib.suite_plugin <repo>/tests      (VERIF_SUITE_OUT=<report.json>)

The suite is a second, independently written workload (real fixture files, the maintainers' call patterns).  The contracts
below need no knowledge of a test's inputs: they compare what the library hands out with an independent reading of the
files it was given, or assert a history law on the objects the tests create.  Every contract *records* and lets the call
proceed (a raising contract would change what the test observes).  Tests that expect errors drive the wrapped calls into
their failure paths: after any exception the shadow state is re-synchronised instead of judged.

contracts (property):
  C02  FileReader: after every seek/cread/creadinto the reported stream position equals a byte-array model's, and the bytes
       delivered are the model's slice (files re-read with plain open(); header length from the independent parser)
  C01  FilReader.read_plan: blocks are numbered 0,1,..; each holds the reported whole number of samples; block k repeats
       `skipback` samples of block k-1; the non-overlapping parts tile [start, start+nsamps) exactly once with the file's values
  C03  pack/unpack: unpack(pack(x)) == x for every array the suite packs, and both agree with the shift definition
  C16  RFIMask: chan_mask only ever grows across apply_* calls and equals previous OR the component
  C05  sigproc.parse_header agrees with the independent parser on every file the suite opens; encode_header output parses back to
       the same values; edit_header changes nothing but its key's value (and nothing at all when it raises)
  C20  FileWriter: the file grows by exactly the bytes handed to cwrite/write (append-only, position at EOF before each write)
"""
from __future__ import annotations

import json
import os
from collections import Counter

import numpy as np

from vlib import sigfile

_C = Counter()
_V: list[dict] = []
_CUR = {"test": None}


def _viol(prop, mech, what):
    _C[f"{prop}:violations"] += 1
    if sum(1 for v in _V if v["mechanism"] == mech) < 5:
        _V.append({"property": prop, "mechanism": mech, "what": what[:500], "case": {"suite_test": _CUR["test"]}})


# ----------------------------------------------------------------------------------------------------------------------
def _model_bytes(reader):
    """Concatenated data sections, read independently of the reader."""
    cached = getattr(reader, "_verif_model", None)
    if cached is not None:
        return cached
    parts = []
    for ent in reader.sinfo.entries:
        with open(ent.filename, "rb") as fh:
            buf = fh.read()
        hl = ent.hdrlen
        if buf[4:16] == b"HEADER_START":
            try:
                _, hl = sigfile.parse_header(buf)
            except sigfile.HeaderError:
                hl = ent.hdrlen
        parts.append(buf[hl:])
    model = b"".join(parts)
    reader._verif_model = model
    return model


def _install_filereader():
    from sigpyproc.io.fileio import FileReader

    o_init, o_seek, o_cread, o_creadinto = FileReader.__init__, FileReader.seek, FileReader.cread, FileReader.creadinto

    def __init__(self, *a, **kw):
        o_init(self, *a, **kw)
        self._verif_pos = 0
        self._verif_model = None
        _C["C02:readers_opened"] += 1
        if len(self.sinfo.entries) > 1:
            _C["C02:multi_file_readers"] += 1
        if self.cur_data_pos_stream != 0:
            _viol("C02", "suite:initial-position", f"new reader reports stream position {self.cur_data_pos_stream}")

    def _resync(self):
        try:
            self._verif_pos = self.cur_data_pos_stream
        except Exception:  # noqa: BLE001
            self._verif_pos = None
        _C["C02:resync_after_exception"] += 1

    def _check_pos(self, what):
        if getattr(self, "_verif_pos", None) is None:
            return
        _C["C02:position_checks"] += 1
        got = self.cur_data_pos_stream
        if got != self._verif_pos:
            _viol("C02", f"suite:position-after-{what}", f"reader reports stream position {got}, byte-array model {self._verif_pos} (files {[os.path.basename(e.filename) for e in self.sinfo.entries]})")
            self._verif_pos = got

    def seek(self, offset, whence=0):
        try:
            r = o_seek(self, offset, whence)
        except Exception:
            _resync(self)
            raise
        if getattr(self, "_verif_pos", None) is not None:
            self._verif_pos = int(offset) if whence == 0 else self._verif_pos + int(offset)
        _check_pos(self, "seek")
        return r

    def cread(self, nunits):
        pos0 = getattr(self, "_verif_pos", None)
        try:
            data = o_cread(self, nunits)
        except Exception:
            _resync(self)
            raise
        if pos0 is None:
            return data
        try:
            model = _model_bytes(self)
        except OSError:
            return data
        nbits = self.bitsinfo.nbits
        nbytes = (int(nunits) // max(1, 8 // nbits)) * (1 if nbits <= 8 else nbits // 8)
        want_raw = model[pos0 : pos0 + nbytes]
        _C["C02:cread_checks"] += 1
        if nbits in (1, 2, 4):
            want = sigfile.unpack_bits(want_raw, nbits, sigfile.default_order(nbits))
            ok = data.size == want.size and np.array_equal(np.asarray(data).astype(np.uint8), want)
        else:
            ok = np.asarray(data).tobytes() == want_raw
        if not ok:
            _viol("C02", "suite:cread-data", f"cread({nunits}) at stream byte {pos0} (nbits {nbits}) differs from the concatenated data sections")
        self._verif_pos = pos0 + len(want_raw)
        if self._verif_pos < len(model):   # at the very end of the stream the library leaves the position at the end of the last file
            _check_pos(self, "cread")
        else:
            self._verif_pos = self.cur_data_pos_stream
        return data

    def creadinto(self, read_buffer, unpack_buffer=None):
        pos0 = getattr(self, "_verif_pos", None)
        try:
            n = o_creadinto(self, read_buffer, unpack_buffer)
        except Exception:
            _resync(self)
            raise
        if pos0 is None:
            return n
        try:
            model = _model_bytes(self)
        except OSError:
            return n
        view = memoryview(read_buffer).cast("B")
        want = model[pos0 : pos0 + len(view)]
        _C["C02:creadinto_checks"] += 1
        if n != len(want):
            _viol("C02", "suite:creadinto-count", f"creadinto of {len(view)} bytes at stream byte {pos0} returned {n}, model holds {len(want)}")
        elif bytes(view[:n]) != want:
            _viol("C02", "suite:creadinto-data", f"creadinto of {len(view)} bytes at stream byte {pos0} differs from the concatenated data sections")
        elif self.bitsinfo.unpack and unpack_buffer is not None and n == len(view):
            nb = self.bitsinfo.nbits
            got = np.frombuffer(memoryview(unpack_buffer), dtype=np.uint8)
            if not np.array_equal(got[: n * (8 // nb)], sigfile.unpack_bits(want, nb, sigfile.default_order(nb))):
                _viol("C02", "suite:creadinto-unpacked", f"unpacked buffer after creadinto at stream byte {pos0} (nbits {nb}) differs from the shift definition")
            _C["C02:unpacked_buffer_checks"] += 1
        self._verif_pos = pos0 + len(want)
        if self._verif_pos < len(model):
            _check_pos(self, "creadinto")
        else:
            self._verif_pos = self.cur_data_pos_stream
        return n

    FileReader.__init__, FileReader.seek, FileReader.cread, FileReader.creadinto = __init__, seek, cread, creadinto


# ----------------------------------------------------------------------------------------------------------------------
def _install_read_plan():
    import inspect

    from sigpyproc.readers import FilReader

    orig = FilReader.read_plan
    sig = inspect.signature(orig)

    def read_plan(self, *a, **kw):
        ba = sig.bind(self, *a, **kw)
        ba.apply_defaults()
        gulp, start, nsamps, skipback = ba.arguments["gulp"], ba.arguments["start"], ba.arguments["nsamps"], abs(ba.arguments["skipback"])
        nch = self.header.nchans
        if nsamps is None:
            nsamps = self.header.nsamples - start
        _C["C01:plans_started"] += 1
        try:
            fr = self._file
            model = _model_bytes(fr)
            X = sigfile.decode_data(model, self.header.nbits, nch)
        except Exception:  # noqa: BLE001
            X = None
        pos, k, prev_tail = start, 0, None
        for item in orig(self, *a, **kw):
            n, ii, data = item
            arr = np.asarray(data)
            _C["C01:blocks_seen"] += 1
            if ii != k:
                _viol("C01", "suite:block-index", f"block {k} reported index {ii}")
            if arr.size != n * nch or n == 0 or n > gulp:
                _viol("C01", "suite:block-size", f"block {k}: reported {n} samples, array holds {arr.size} values for {nch} channels (gulp {gulp})")
            elif X is not None:
                lo = pos - (skipback if k else 0)
                want = X[lo : lo + n]
                if want.shape[0] != n or not np.array_equal(arr.reshape(n, nch).astype(np.float64), want.astype(np.float64)):
                    _viol("C01", "suite:block-values", f"block {k} of plan (gulp {gulp}, start {start}, nsamps {nsamps}, skipback {skipback}) is not samples [{lo},{lo + n}) of the file")
                _C["C01:block_value_checks"] += 1
            pos += n - (skipback if k else 0)
            k += 1
            yield item
        # reached only when the consumer drained the plan
        _C["C01:plans_drained"] += 1
        if k and pos != start + nsamps:
            _viol("C01", "suite:tiling", f"plan (gulp {gulp}, start {start}, nsamps {nsamps}, skipback {skipback}) delivered samples up to {pos}, expected {start + nsamps}")

    FilReader.read_plan = read_plan


# ----------------------------------------------------------------------------------------------------------------------
def _install_bits():
    from sigpyproc.io import bits

    o_pack, o_unpack = bits.pack, bits.unpack

    def _order(bitorder):
        return "big" if str(bitorder).lower().startswith("b") else "little"

    def pack(array, nbits, packed=None, bitorder="big", **kw):
        src = np.array(array, copy=True)
        out = o_pack(array, nbits, packed, bitorder=bitorder, **kw)
        try:
            want = sigfile.pack_bits(src.ravel().astype(np.uint8), nbits, _order(bitorder))
        except ValueError:
            return out
        _C["C03:pack_checks"] += 1
        if not np.array_equal(np.asarray(out).ravel(), want):
            _viol("C03", "suite:pack", f"pack(nbits={nbits}, bitorder={bitorder}) of {src.size} values differs from the shift definition")
        return out

    def unpack(array, nbits, unpacked=None, bitorder="big", **kw):
        src = np.array(array, copy=True)
        out = o_unpack(array, nbits, unpacked, bitorder=bitorder, **kw)
        if nbits in (1, 2, 4) and src.dtype == np.uint8:
            want = sigfile.unpack_bits(src.ravel(), nbits, _order(bitorder))
            _C["C03:unpack_checks"] += 1
            if not np.array_equal(np.asarray(out).ravel()[: want.size], want):
                _viol("C03", "suite:unpack", f"unpack(nbits={nbits}, bitorder={bitorder}) of {src.size} bytes differs from the shift definition")
        return out

    bits.pack, bits.unpack = pack, unpack
    # modules that bound the names at import time
    import sigpyproc.io.fileio as fio

    if getattr(fio, "pack", None) is o_pack:
        fio.pack = pack
    if getattr(fio, "unpack", None) is o_unpack:
        fio.unpack = unpack


# ----------------------------------------------------------------------------------------------------------------------
def _install_rfimask():
    from sigpyproc.core.rfi import RFIMask

    for name, comp in (("apply_mask", "user_mask"), ("apply_method", "stats_mask"), ("apply_funcn", "custom_mask")):
        orig = getattr(RFIMask, name)

        def wrapped(self, *a, _orig=orig, _name=name, _comp=comp, **kw):
            before = np.array(self.chan_mask, dtype=bool).copy()
            r = _orig(self, *a, **kw)
            after = np.array(self.chan_mask, dtype=bool)
            _C[f"C16:{_name}_checks"] += 1
            if np.any(before & ~after):
                _viol("C16", f"suite:mask-shrank:{_name}", f"{_name} removed channels {np.flatnonzero(before & ~after)[:6].tolist()} from chan_mask")
            elif not np.array_equal(after, before | np.array(getattr(self, _comp), dtype=bool)):
                _viol("C16", f"suite:mask-not-union:{_name}", f"after {_name} chan_mask != previous OR {_comp}")
            return r

        setattr(RFIMask, name, wrapped)


# ----------------------------------------------------------------------------------------------------------------------
def _install_filewriter():
    from sigpyproc.io.fileio import FileWriter

    o_cwrite, o_write = FileWriter.cwrite, FileWriter.write

    def _around(self, call, nbytes_expected, what):
        fo = self.file_obj
        try:
            fo.flush()
            size0, pos0 = os.fstat(fo.fileno()).st_size, fo.tell()
        except Exception:  # noqa: BLE001
            return call()
        r = call()
        fo.flush()
        size1, pos1 = os.fstat(fo.fileno()).st_size, fo.tell()
        _C[f"C20:{what}_checks"] += 1
        if pos0 != size0:
            _viol("C20", f"suite:{what}-not-at-eof", f"{what} started at offset {pos0} of a {size0}-byte file (bytes already written would be overwritten)")
        elif nbytes_expected is not None and (size1 - size0 != nbytes_expected or pos1 != size1):
            _viol("C20", f"suite:{what}-growth", f"{what} of {nbytes_expected} bytes grew the file by {size1 - size0} (position {pos1}, size {size1})")
        return r

    def cwrite(self, arr):
        a = np.asarray(arr)
        nb = self.bitsinfo.nbits
        exp = a.size * nb // 8 if nb < 8 else a.size * (nb // 8)
        return _around(self, lambda: o_cwrite(self, arr), exp, "cwrite")

    def write(self, bo):
        return _around(self, lambda: o_write(self, bo), len(bytes(bo)), "write")

    FileWriter.cwrite, FileWriter.write = cwrite, write


# ----------------------------------------------------------------------------------------------------------------------
def _same(a, b):
    if isinstance(a, float) or isinstance(b, float):
        return a == b or (a != a and b != b)
    return a == b


def _install_header():
    from sigpyproc.io import sigproc

    o_parse, o_encode, o_edit = sigproc.parse_header, sigproc.encode_header, sigproc.edit_header

    def parse_header(filename):
        hdr = o_parse(filename)
        try:
            with open(filename, "rb") as fh:
                buf = fh.read(1 << 16)
            items, hl = sigfile.parse_header(buf)
        except (OSError, sigfile.HeaderError, TypeError):
            return hdr
        _C["C05:parse_checks"] += 1
        mine = dict(items)
        bad = [k for k, v in mine.items() if k not in hdr or not _same(hdr[k], v)]
        extra = [k for k in hdr if k in sigfile.KEY_TYPES and k not in mine]
        if bad or extra or hdr.get("hdrlen") != hl:
            _viol("C05", "suite:parse-header", f"parse_header differs from the independent parser: keys {bad[:5]}, invented {extra[:5]}, hdrlen {hdr.get('hdrlen')} vs {hl}")
        return hdr

    def encode_header(header):
        out = o_encode(header)
        # only well-typed headers are in the contract's domain (edit_header encodes a candidate first and rejects it by length)
        if any((not isinstance(v, str)) if sigfile.KEY_TYPES[k] == "s" else isinstance(v, (str, type(None)))
               for k, v in header.items() if k in sigfile.KEY_TYPES):
            _C["C05:encode_ill_typed_input_skipped"] += 1
            return out
        try:
            items, hl = sigfile.parse_header(bytes(out))
        except sigfile.HeaderError as exc:
            _viol("C05", "suite:encode-header-unparseable", f"encode_header output not parseable: {exc}")
            return out
        _C["C05:encode_checks"] += 1
        want = {k: v for k, v in header.items() if k in sigfile.KEY_TYPES}
        got = dict(items)
        bad = [k for k in want if k not in got or not _same(type(got[k])(want[k]) if not isinstance(got[k], str) else want[k], got[k])]
        if hl != len(out) or len(items) != len(want) or bad:
            _viol("C05", "suite:encode-header", f"encode_header wrote keys {[k for k, _ in items][:30]} for {list(want)[:30]}; differing {bad[:5]}")
        return out

    def edit_header(filename, key, value):
        try:
            with open(filename, "rb") as fh:
                before = fh.read()
        except (OSError, TypeError):
            return o_edit(filename, key, value)
        try:
            r = o_edit(filename, key, value)
        except Exception:
            with open(filename, "rb") as fh:
                if fh.read() != before:
                    _viol("C05", "suite:edit-raised-but-file-changed", f"edit_header({key!r}) raised but the file changed")
            _C["C05:edit_rejected_checks"] += 1
            raise
        with open(filename, "rb") as fh:
            after = fh.read()
        _C["C05:edit_checks"] += 1
        try:
            i0, h0 = sigfile.parse_header(before)
            i1, h1 = sigfile.parse_header(after)
        except sigfile.HeaderError:
            _viol("C05", "suite:edit-unparseable", f"file not parseable after edit_header({key!r})")
            return r
        others0 = [(k, v) for k, v in i0 if k != key]
        others1 = [(k, v) for k, v in i1 if k != key]
        if len(before) != len(after) or h0 != h1 or before[h0:] != after[h1:] or len(others0) != len(others1) or any(a[0] != b[0] or not _same(a[1], b[1]) for a, b in zip(others0, others1)):
            _viol("C05", "suite:edit-touched-other-bytes", f"edit_header({key!r}, {value!r}) changed something other than that key's value")
        return r

    sigproc.parse_header, sigproc.encode_header, sigproc.edit_header = parse_header, encode_header, edit_header
    import sigpyproc.header as hmod  # names bound at import time

    for mod in (hmod,):
        for nm, o, n in (("parse_header", o_parse, parse_header), ("encode_header", o_encode, encode_header), ("edit_header", o_edit, edit_header)):
            if getattr(mod, nm, None) is o:
                setattr(mod, nm, n)


# ----------------------------------------------------------------------------------------------------------------------
def pytest_configure(config):  # noqa: ARG001
    for fn in (_install_filereader, _install_read_plan, _install_bits, _install_rfimask, _install_filewriter, _install_header):
        try:
            fn()
            _C[f"installed:{fn.__name__}"] += 1
        except Exception as exc:  # noqa: BLE001
            _C[f"install_failed:{fn.__name__}:{type(exc).__name__}"] += 1


def pytest_runtest_setup(item):
    _CUR["test"] = item.nodeid


def pytest_runtest_logreport(report):
    if report.when == "call":
        _C[f"tests_{report.outcome}"] += 1


def pytest_sessionfinish(session, exitstatus):  # noqa: ARG001
    out = os.environ.get("VERIF_SUITE_OUT")
    if out:
        with open(out, "w") as fh:
            json.dump({"counters": dict(_C), "violations": _V, "exitstatus": int(exitstatus)}, fh, indent=1)
