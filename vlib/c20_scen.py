"""Writer scenarios shared by the C20 monitor and its crash-injection child process."""
from __future__ import annotations

import os
import sys

import numpy as np

from vlib import sigfile

WRITERS = ("invert_freq", "apply_channel_mask", "downsample", "extract_samps", "extract_chans", "extract_bands", "subband", "remove_zerodm",
           "requantize", "block_to_file", "ts_to_tim", "fs_to_spec", "extract_chans_b2", "extract_bands_b2", "mask_none_2files", "clean_rfi_subrange", "dedisp_block_to_file")
N, NCH = 24, 8


LONG_HEADER = {"on": False}   # observation with a long source name / raw-file path: output headers exceed 512 bytes


def make_input(d, nbits=8, seed=0):
    rng = np.random.default_rng([seed, nbits, 20])
    X = sigfile.random_samples(rng, N, NCH, nbits, small=True)
    if nbits == 8:
        X = (X % 50 + 100).astype(np.uint8)
    p = os.path.join(d, "in.fil")
    extra = {"source_name": "J0437-4715_" + "drift-scan-field-" * 9, "rawdatafile": "/data/archive/2017/09/04/" + "beam01_" * 20 + "raw.sf"} if LONG_HEADER["on"] else {}
    sigfile.write_fil(p, X, nbits, fch1=1500.0, foff=-10.0, tsamp=1e-3, **extra)
    return p, X


OUTPUT_NAMES = {"extract_chans": ["oc_chan0001.tim", "oc_chan0005.tim"], "extract_bands": ["ob_sub00.fil", "ob_sub01.fil"], "ts_to_tim": ["out.tim"], "fs_to_spec": ["out.spec"],
                "extract_chans_b2": ["oc_chan0001.tim", "oc_chan0005.tim", "oc_chan0006.tim", "oc_chan0002.tim", "oc_chan0003.tim"],
                "extract_bands_b2": ["ob_sub00.fil", "ob_sub01.fil", "ob_sub02.fil", "ob_sub03.fil"]}


def precreate_outputs(writer, d):
    """Re-run scenario: the output names already exist as longer files from an earlier run (stale content)."""
    for name in OUTPUT_NAMES.get(writer, ["out.fil"]):
        with open(os.path.join(d, name), "wb") as fh:
            fh.write(sigfile.encode_header(sigfile.std_items(nchans=NCH, nbits=8, source_name="STALE")) + bytes(range(256)) * 8)


BIG_WRITERS = ("extract_chans_big", "extract_bands_big")   # products above 1 MiB: size-dependent writer paths (pre-allocation etc.)


MANY_WRITERS = ("extract_chans_many",)   # several hundred products open side by side in one batch (one writer per product alive at a time)
MANY_NCH, MANY_N = 260, 40


ZERO_TAIL_WRITERS = ("mask_zero_tail", "extract_samps_zero_tail")   # the last blocks of the product are all zero (blanked end of a recording)
ZT_N, ZT_NCH = 3072, 16


LIMIT_WRITERS = ("limit_extract", "limit_mask", "limit_invert", "limit_tim")   # blocks of 32 KiB: scenarios run under a file-size limit (full disk / quota)


def run_writer(writer, d, gulp, nbits=8, seed=0, preexisting=False):
    """Perform the write inside directory d. Returns list of output paths."""
    from sigpyproc.readers import FilReader

    if writer in LIMIT_WRITERS:
        rng = np.random.default_rng([seed, 79])
        Xl = rng.integers(1, 200, size=(8192, 16)).astype(np.uint8)
        pl = os.path.join(d, "in.fil")
        sigfile.write_fil(pl, Xl, 8, fch1=1500.0, foff=-10.0, tsamp=1e-3)
        fill = FilReader(pl)
        outl = os.path.join(d, "out.fil")
        kwl = {"gulp": 2048, "quiet": True, "description": "v"}
        if writer == "limit_extract":
            return [fill.extract_samps(0, 8192, outl, **kwl)]
        if writer == "limit_mask":
            ml = np.zeros(16, dtype=bool); ml[[2, 9]] = True
            return [fill.apply_channel_mask(ml, 5, outl, **kwl)]
        if writer == "limit_invert":
            return [fill.invert_freq(outl, **kwl)]
        return [fill.collapse(**kwl).to_tim(os.path.join(d, "out.tim"))]

    if writer in ZERO_TAIL_WRITERS:
        rng = np.random.default_rng([seed, 78])
        Xz = rng.integers(1, 200, size=(ZT_N, ZT_NCH)).astype(np.uint8)
        Xz[-1024:] = 0
        Xz[1024:1536] = 0          # and one blanked stretch in the middle
        pz = os.path.join(d, "in.fil")
        sigfile.write_fil(pz, Xz, 8, fch1=1500.0, foff=-10.0, tsamp=1e-3)
        filz = FilReader(pz)
        outz = os.path.join(d, "out.fil")
        if writer == "mask_zero_tail":
            return [filz.apply_channel_mask(np.zeros(ZT_NCH, dtype=bool), 0, outz, gulp=512, quiet=True, description="v")]
        return [filz.extract_samps(0, ZT_N, outz, gulp=512, quiet=True, description="v")]

    if writer in MANY_WRITERS:
        rng = np.random.default_rng([seed, 78])
        Xm = rng.integers(1, 200, size=(MANY_N, MANY_NCH)).astype(np.uint8)
        pm = os.path.join(d, "in.fil")
        sigfile.write_fil(pm, Xm, 8, fch1=1500.0, foff=-0.5, tsamp=1e-3)
        return list(FilReader(pm).extract_chans(list(range(MANY_NCH)), os.path.join(d, "oc"), batch_size=MANY_NCH, gulp=10, quiet=True, description="v"))
    if writer in BIG_WRITERS:
        rng = np.random.default_rng([seed, 77])
        nb = 270000
        Xb = rng.integers(0, 200, size=(nb, 4)).astype(np.uint8)
        pb = os.path.join(d, "in.fil")
        sigfile.write_fil(pb, Xb, 8, fch1=1500.0, foff=-10.0, tsamp=1e-3)
        filb = FilReader(pb)
        kwb = {"gulp": 65536, "quiet": True, "description": "v"}
        if writer == "extract_chans_big":
            return list(filb.extract_chans([0, 3], os.path.join(d, "oc"), **kwb))
        return list(filb.extract_bands(0, 4, 2, os.path.join(d, "ob"), **kwb))
    p, X = make_input(d, nbits, seed)
    if preexisting:
        precreate_outputs(writer, d)
    fil = FilReader(p)
    kw = {"gulp": gulp, "quiet": True, "description": "v"}
    out = os.path.join(d, "out.fil")
    if writer == "mask_none_2files":
        # clean data (nothing flagged) spread over two files, whole range through the default arguments: still a streamed, complete product
        pa, pb = sigfile.write_split(d, X, nbits, [10, N - 10], fch1=1500.0, foff=-10.0, tsamp=1e-3, stem="part")
        os.rename(pa, os.path.join(d, "in.fil"))        # names the hooks and the listing treat as inputs
        os.rename(pb, os.path.join(d, "in2.fil"))
        fil2 = FilReader([os.path.join(d, "in.fil"), os.path.join(d, "in2.fil")])
        return [fil2.apply_channel_mask(np.zeros(NCH, dtype=bool), 3, out, gulp=gulp, quiet=True, description="v")]
    if writer == "clean_rfi_subrange":
        # the two-pass cleaner on a sub-range (statistics pass first, then the masked copy): the product appears once, with its final header
        return [fil.clean_rfi(method="mad", threshold=3.0, freq_mask=[(1455.0, 1465.0)], outfile_name=out, start=3, nsamps=17, **kw)[0]]
    if writer == "invert_freq":
        return [fil.invert_freq(out, **kw)]
    if writer == "apply_channel_mask":
        m = np.zeros(NCH, dtype=bool); m[[1, 4]] = True
        return [fil.apply_channel_mask(m, 3, out, **kw)]
    if writer == "downsample":
        return [fil.downsample(2, 2, out, **kw)]
    if writer == "extract_samps":
        return [fil.extract_samps(3, 17, out, gulp=gulp, quiet=True, description="v")]
    if writer == "extract_chans":
        return list(fil.extract_chans([1, 5], os.path.join(d, "oc"), **kw))
    if writer == "extract_bands":
        return list(fil.extract_bands(0, 8, 4, os.path.join(d, "ob"), **kw))
    if writer == "extract_chans_b2":   # more products than the batch size: several batches of output files
        return list(fil.extract_chans([1, 5, 6, 2, 3], os.path.join(d, "oc"), batch_size=2, **kw))
    if writer == "extract_bands_b2":
        return list(fil.extract_bands(0, 8, 2, os.path.join(d, "ob"), batch_size=2, **kw))
    if writer == "subband":
        return [fil.subband(5.0, 2, out, **kw)]
    if writer == "remove_zerodm":
        return [fil.remove_zerodm(out, **kw)]
    if writer == "requantize":
        return [fil.requantize(8, out, **kw)]
    if writer == "block_to_file":
        return [fil.read_block(0, N).to_file(out)]
    if writer == "dedisp_block_to_file":     # a block that has been dedispersed (its DM differs from the header's): written once, with its final header
        return [fil.read_block(0, N).dedisperse(5.0).to_file(out)]
    if writer == "ts_to_tim":
        return [fil.collapse(**kw).to_tim(os.path.join(d, "out.tim"))]
    if writer == "fs_to_spec":
        return [fil.collapse(**kw).rfft().to_spec(os.path.join(d, "out.spec"))]
    raise ValueError(writer)


def child_main(argv):
    """python -m vlib.c20_scen <writer> <dir> <gulp> <kill_after_k | -1> [pre]"""
    import faulthandler

    faulthandler.enable()
    writer, d, gulp, k = argv[0], argv[1], int(argv[2]), int(argv[3])
    flags = argv[4:]
    LONG_HEADER["on"] = "long" in flags
    interrupt = "interrupt" in flags     # instead of dying, the k-th write is followed by an exception that unwinds the writer (Ctrl-C, a failing read)
    from sigpyproc.io.fileio import FileWriter

    state = {"n": 0}

    def wrap(name):
        orig = getattr(FileWriter, name)

        def f(self, arg):
            r = orig(self, arg)
            if not self.files[0].endswith(("in.fil", "in2.fil")):
                state["n"] += 1
                with open(os.path.join(d, ".writes"), "a") as lf:     # which products have received bytes so far (read by the parent after the crash)
                    lf.write(os.path.basename(self.files[0]) + "\n")
                if k >= 0 and state["n"] == k + 1:
                    if interrupt:
                        raise KeyboardInterrupt("injected after write %d" % (k + 1))
                    os._exit(137)  # die right after the (k+1)-th write returned: no flush, no atexit, no close
            return r

        setattr(FileWriter, name, f)

    if k >= 0:
        wrap("write")
        wrap("cwrite")
    fs = [f for f in flags if f.startswith("fsize=")]
    if fs:
        # a full disk / quota: once the input exists, no file of this process may grow beyond the limit (writes are cut short or refused)
        import resource
        import signal

        lim = int(fs[0].split("=")[1])
        signal.signal(signal.SIGXFSZ, signal.SIG_IGN)
        orig_wf = sigfile.write_fil

        def wf(*a, **kw):
            r = orig_wf(*a, **kw)
            resource.setrlimit(resource.RLIMIT_FSIZE, (lim, lim))
            return r

        sigfile.write_fil = wf
    try:
        outs = run_writer(writer, d, gulp, preexisting="pre" in flags)
    except KeyboardInterrupt:
        if not interrupt:
            raise
        # the interpreter unwinds normally (context managers exit, files are closed): what is on disk afterwards is what a user is left with
        sys.stdout.write("INTERRUPTED\n")
        sys.stdout.flush()
        sys.exit(130)
    sys.stdout.write("DONE " + " ".join(outs) + "\n")
    sys.stdout.flush()
    os._exit(0)


if __name__ == "__main__":
    child_main(sys.argv[1:])
