"""Write evidence/<id>.json from what the run measured (schema: EVIDENCE.schema.json)."""
from __future__ import annotations

import json
import os
import subprocess

from vlib.core import jsonable


def repo_state(repo: str) -> dict:
    def git(*a):
        try:
            return subprocess.run(["git", "-C", repo, *a], capture_output=True, text=True, timeout=20).stdout.strip()
        except Exception:  # noqa: BLE001
            return "?"

    return {"head": git("rev-parse", "--short", "HEAD"), "dirty_files": len([l for l in git("status", "--porcelain").splitlines() if l.strip()])}


def write(root, mon, prop, tier, seed, tot, wall, *, known, new, inconclusive, jobs, modes, repo):
    coverage = {
        "evaluations": int(tot["evaluations"]),
        "distinct_nontrivial": len(tot["nontrivial"]),
        "rule": mon.RULE if isinstance(mon.RULE, str) else mon.RULE(tier),
        "samples": tot["samples"][:6] or [{"note": "no sample recorded"}],
        "exhaustive": bool(mon.EXHAUSTIVE(tier)) if hasattr(mon, "EXHAUSTIVE") else False,
        "monitor_counters": {k: int(v) for k, v in sorted(tot["counters"].items())},
        "skipped_out_of_domain": {k: int(v) for k, v in sorted(tot["skipped"].items())},
        "required_nonzero": list(mon.REQUIRED(tier)) if hasattr(mon, "REQUIRED") else [],
        "violating_observations": int(tot["nviolations"]),
        "known_finding_witnesses": known,
        "new_violation_witnesses": new,
        "verdict": "violated" if new else ("inconclusive" if inconclusive else "held"),
        "inconclusive_reasons": inconclusive,
        "worker_processes": jobs,
        "modes": modes,
        "repo": repo_state(repo),
    }
    if hasattr(mon, "EXTRA_COVERAGE"):
        coverage.update(jsonable(mon.EXTRA_COVERAGE(tier, tot)))
    doc = {
        "property_id": prop,
        "tier": tier,
        "seed": int(seed),
        "level": mon.LEVEL,
        "coverage": jsonable(coverage),
        "assumptions": list(getattr(mon, "ASSUMPTIONS", [])),
        "wall_s": round(float(wall), 2),
        "violations": int(new),
    }
    # runs against a scratch copy of the repository (mutation self-tests, seeded changes) must not overwrite the real evidence
    evdir = os.environ.get("VERIF_EVIDENCE_DIR") or (os.path.join(root, "evidence") if os.path.realpath(repo) == "/repo" else os.path.join(root, ".work", "evidence-scratch"))
    os.makedirs(evdir, exist_ok=True)
    path = os.path.join(evdir, f"{prop}.json")
    tmp = path + ".tmp"
    with open(tmp, "w") as fh:
        json.dump(doc, fh, indent=1, sort_keys=True)
        fh.write("\n")
    os.replace(tmp, path)
    return path
