"""Shared monitor plumbing: case hashing, per-shard context, verdict records.

A *monitor module* (monitors/cXX_*.py) exposes

    PROPERTY   "C01"
    LEVEL      "exploration" | "fault_enumeration"
    RULE       text: how cases are generated and what makes one non-trivial
    ASSUMPTIONS  list[str]
    EXHAUSTIVE(tier) -> bool         (optional)
    REQUIRED(tier) -> list[str]      counters that must be > 0, else inconclusive
    cases(tier, seed) -> iterator of JSON-able case dicts (deterministic)
    run_case(case, ctx) -> None      drives the real code, records into ctx
    setup_worker(ctx)                (optional) per-process initialisation
    finish(ctx)                      (optional) end-of-shard checks

Everything a monitor observes goes through ``Ctx`` so that evidence counts are
measured, never constants.
"""
from __future__ import annotations

import hashlib
import json
import os
import shutil
import tempfile
import traceback
from collections import Counter

import numpy as np


def jsonable(obj):
    if isinstance(obj, dict):
        return {str(k): jsonable(v) for k, v in obj.items()}
    if isinstance(obj, (list, tuple)):
        return [jsonable(v) for v in obj]
    if isinstance(obj, np.ndarray):
        if obj.size > 64:
            return {"ndarray": list(obj.shape), "dtype": str(obj.dtype),
                    "head": jsonable(obj.ravel()[:16].tolist())}
        return jsonable(obj.tolist())
    if isinstance(obj, (np.integer,)):
        return int(obj)
    if isinstance(obj, (np.floating,)):
        return float(obj)
    if isinstance(obj, (np.bool_,)):
        return bool(obj)
    if isinstance(obj, float):
        if obj != obj or obj in (float("inf"), float("-inf")):
            return repr(obj)
        return obj
    if isinstance(obj, (int, str, bool)) or obj is None:
        return obj
    if isinstance(obj, bytes):
        return obj[:64].hex()
    return repr(obj)


def case_hash(case) -> str:
    blob = json.dumps(jsonable(case), sort_keys=True, separators=(",", ":"))
    return hashlib.blake2b(blob.encode(), digest_size=8).hexdigest()


class Ctx:
    """Per-shard recorder.  One instance per worker process."""

    MAX_VIOLATIONS = 400
    MAX_PER_MECHANISM = 3
    MAX_SAMPLES = 4

    def __init__(self, prop: str, tier: str, seed: int, shard: int, nshards: int):
        self.prop = prop
        self.tier = tier
        self.seed = seed
        self.shard = shard
        self.nshards = nshards
        self.evaluations = 0
        self.counters: Counter = Counter()
        self.nontrivial: set[str] = set()
        self.violations: list[dict] = []
        self.nviolations = 0
        self.samples: list = []
        self.skipped: Counter = Counter()
        self.notes: dict = {}
        self.cur_case = None
        self._tmp = None
        self._per_mech: dict[str, int] = {}

    # ---- temp dir -------------------------------------------------------
    @property
    def tmp(self) -> str:
        if self._tmp is None:
            base = os.environ.get("VERIF_TMP") or ("/dev/shm" if os.path.isdir("/dev/shm") else None)
            self._tmp = tempfile.mkdtemp(prefix=f"verif-{self.prop}-", dir=base)
        return self._tmp

    def cleanup(self):
        if self._tmp and os.path.isdir(self._tmp):
            shutil.rmtree(self._tmp, ignore_errors=True)
        self._tmp = None

    # ---- recording ------------------------------------------------------
    def count(self, name: str, n: int = 1):
        self.counters[name] += n

    def skip(self, why: str):
        self.skipped[why] += 1

    def evaluated(self, n: int = 1):
        self.evaluations += n

    def nontrivial_case(self, case):
        self.nontrivial.add(case_hash(case))

    def sample(self, obj):
        if len(self.samples) < self.MAX_SAMPLES:
            self.samples.append(jsonable(obj))

    def violation(self, mechanism: str, what: str, case=None, **detail):
        """Record a refuting observation.

        ``mechanism`` is a short stable label computed from the *kind* of
        failure and the *regime* of the case (never from random values); it is
        what known_findings.json is keyed by.
        """
        self.nviolations += 1
        self._per_mech[mechanism] = self._per_mech.get(mechanism, 0) + 1
        # cap per mechanism (not in total) so that a frequent failure cannot hide a rare one
        if self._per_mech[mechanism] <= self.MAX_PER_MECHANISM and len(self.violations) < self.MAX_VIOLATIONS:
            self.violations.append(
                {
                    "mechanism": mechanism,
                    "what": what,
                    "case": jsonable(case if case is not None else self.cur_case),
                    "detail": jsonable(detail),
                }
            )

    def to_json(self) -> dict:
        return {
            "shard": self.shard,
            "evaluations": self.evaluations,
            "counters": dict(self.counters),
            "nontrivial": sorted(self.nontrivial),
            "violations": self.violations,
            "nviolations": self.nviolations,
            "samples": self.samples,
            "skipped": dict(self.skipped),
            "notes": jsonable(self.notes),
        }


def fmt_exc(exc: BaseException) -> str:
    return "".join(traceback.format_exception_only(type(exc), exc)).strip()[:400]


def tb_tail(exc: BaseException, n: int = 3) -> list[str]:
    """Last frames of a traceback inside the repository (file:line func)."""
    out = []
    for fr in traceback.extract_tb(exc.__traceback__):
        out.append(f"{os.path.basename(fr.filename)}:{fr.lineno}:{fr.name}")
    return out[-n:]


def exc_site(exc: BaseException) -> str:
    """Innermost sigpyproc function in the traceback (stable mechanism label)."""
    site = "?"
    for fr in traceback.extract_tb(exc.__traceback__):
        if "sigpyproc" in fr.filename:
            site = f"{os.path.basename(fr.filename)}:{fr.name}"
    return site
