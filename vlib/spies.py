"""Harness-side hooks (attribute patching; nothing is changed inside the repository)."""
from __future__ import annotations

import numpy as np


class KernelSpy:
    """Wrap kernels.<name> so that every call made *by the library* is logged (scalar args, array sizes)."""

    def __init__(self, names):
        from sigpyproc.core import kernels

        self.kernels = kernels
        self.names = list(names)
        self.log: list[tuple] = []
        self._orig = {}

    def install(self):
        for name in self.names:
            orig = getattr(self.kernels, name)
            if getattr(orig, "_verif_spy", False):
                continue
            self._orig[name] = orig

            def wrapper(*args, _orig=orig, _name=name, **kw):
                rec = [_name]
                for a in args:
                    if isinstance(a, np.ndarray):
                        rec.append(("arr", a.size, str(a.dtype)))
                    else:
                        rec.append(a)
                self.log.append(tuple(rec))
                return _orig(*args, **kw)

            wrapper._verif_spy = True
            wrapper.py_func = getattr(orig, "py_func", None)
            setattr(self.kernels, name, wrapper)
        return self

    def clear(self):
        self.log.clear()

    def calls(self, name):
        return [r for r in self.log if r[0] == name]


def tiles_exactly_once(intervals, total: int):
    """intervals: list of (lo, hi) half-open.  Returns None if they tile [0,total) exactly once, else a description."""
    cover = np.zeros(total + 1, dtype=np.int64)
    for lo, hi in intervals:
        if lo < 0 or hi > total or hi < lo:
            return f"interval [{lo},{hi}) outside [0,{total})"
        cover[lo] += 1
        cover[hi] -= 1
    c = np.cumsum(cover)[:total]
    if total and (c.min() != 1 or c.max() != 1):
        bad = int(np.flatnonzero(c != 1)[0])
        return f"output index {bad} written {int(c[bad])} times"
    return None
