"""Independent SIGPROC header encoder/parser, bit packer and file synthesiser.

Written from the SIGPROC format description, NOT by calling sigpyproc.io.*:
inputs and re-reads used by the monitors must not depend on the code under
test.  Header keyword type table per the sigproc user guide.
"""
from __future__ import annotations

import os
import struct

import numpy as np

# keyword -> struct code ('s' = length-prefixed string)
KEY_TYPES = {
    "telescope_id": "<I", "machine_id": "<I", "data_type": "<I", "rawdatafile": "s",
    "source_name": "s", "barycentric": "<I", "pulsarcentric": "<I", "az_start": "<d",
    "za_start": "<d", "src_raj": "<d", "src_dej": "<d", "tstart": "<d", "tsamp": "<d",
    "nbits": "<I", "fch1": "<d", "foff": "<d", "nchans": "<I", "nifs": "<I",
    "refdm": "<d", "nbeams": "<I", "ibeam": "<I", "signed": "<b",
}


def _s(text: str) -> bytes:
    raw = text.encode()
    return struct.pack("<I", len(raw)) + raw


def encode_header(items) -> bytes:
    """items: list of (key, value) in the order they must appear."""
    out = [_s("HEADER_START")]
    for key, val in items:
        code = KEY_TYPES[key]
        out.append(_s(key))
        out.append(_s(val) if code == "s" else struct.pack(code, val))
    out.append(_s("HEADER_END"))
    return b"".join(out)


class HeaderError(ValueError):
    pass


def parse_header(buf: bytes):
    """Return (items list[(key, value)], hdrlen). Raises HeaderError if incomplete/ill-formed."""
    pos = 0

    def rd_str():
        nonlocal pos
        if pos + 4 > len(buf):
            raise HeaderError("truncated length word")
        (n,) = struct.unpack_from("<I", buf, pos)
        pos += 4
        if n > 4096 or pos + n > len(buf):
            raise HeaderError(f"bad string length {n}")
        s = buf[pos : pos + n]
        pos += n
        try:
            return s.decode("ascii")
        except UnicodeDecodeError as exc:
            raise HeaderError("non-ascii keyword") from exc

    if rd_str() != "HEADER_START":
        raise HeaderError("no HEADER_START")
    items = []
    while True:
        key = rd_str()
        if key == "HEADER_END":
            break
        code = KEY_TYPES.get(key)
        if code is None:
            raise HeaderError(f"unknown keyword {key!r}")
        if code == "s":
            items.append((key, rd_str()))
        else:
            size = struct.calcsize(code)
            if pos + size > len(buf):
                raise HeaderError("truncated value")
            items.append((key, struct.unpack_from(code, buf, pos)[0]))
            pos += size
    return items, pos


def parse_file(path: str):
    """Return (dict, hdrlen, data bytes) of a SIGPROC file."""
    with open(path, "rb") as fh:
        buf = fh.read()
    items, hdrlen = parse_header(buf)
    return dict(items), hdrlen, buf[hdrlen:]


# ---------------------------------------------------------------------------
# bit fields (definition with plain shifts; numpy only as a container)
# ---------------------------------------------------------------------------
def default_order(nbits: int) -> str:
    # sigproc convention used by the library: 1-bit LSB first, 2/4-bit MSB first
    return "little" if nbits == 1 else "big"


def unpack_bits(raw, nbits: int, order: str) -> np.ndarray:
    raw = np.frombuffer(bytes(raw), dtype=np.uint8) if not isinstance(raw, np.ndarray) else raw.astype(np.uint8)
    per = 8 // nbits
    mask = (1 << nbits) - 1
    out = np.empty(raw.size * per, dtype=np.uint8)
    for j in range(per):
        shift = (per - 1 - j) * nbits if order == "big" else j * nbits
        out[j::per] = (raw >> shift) & mask
    return out


def pack_bits(vals: np.ndarray, nbits: int, order: str) -> np.ndarray:
    per = 8 // nbits
    vals = np.asarray(vals).astype(np.uint16)
    if vals.size % per:
        raise ValueError("size not a whole number of bytes")
    if vals.size and int(vals.max()) >= (1 << nbits):
        raise ValueError("value out of range for depth")
    out = np.zeros(vals.size // per, dtype=np.uint16)
    for j in range(per):
        shift = (per - 1 - j) * nbits if order == "big" else j * nbits
        out |= vals[j::per] << shift
    return out.astype(np.uint8)


FILE_DTYPE = {8: "<u1", 16: "<u2", 32: "<f4"}


def encode_data(X: np.ndarray, nbits: int) -> bytes:
    """X (nsamps, nchans) of values representable at the depth -> data section bytes."""
    flat = np.ascontiguousarray(X).ravel()
    if nbits in (1, 2, 4):
        return pack_bits(flat.astype(np.uint8), nbits, default_order(nbits)).tobytes()
    return flat.astype(FILE_DTYPE[nbits]).tobytes()


def decode_data(raw: bytes, nbits: int, nchans: int) -> np.ndarray:
    """Data section bytes -> (nsamps, nchans) float64/ints (whole samples only)."""
    if nbits in (1, 2, 4):
        flat = unpack_bits(raw, nbits, default_order(nbits))
    else:
        dt = np.dtype(FILE_DTYPE[nbits])
        flat = np.frombuffer(raw[: len(raw) // dt.itemsize * dt.itemsize], dtype=dt)
    n = flat.size // nchans
    return flat[: n * nchans].reshape(n, nchans)


def std_items(*, nchans, nbits, fch1=1500.0, foff=-1.0, tsamp=1e-3, tstart=58000.0, data_type=1,
              rawdatafile="raw", source_name="J0000+0000", refdm=None, telescope_id=4, machine_id=10,
              src_raj=123456.7, src_dej=-123456.7, extra=()):
    items = [
        ("rawdatafile", rawdatafile), ("source_name", source_name), ("machine_id", machine_id),
        ("telescope_id", telescope_id), ("src_raj", src_raj), ("src_dej", src_dej),
        ("az_start", 12.5), ("za_start", 33.25), ("data_type", data_type), ("fch1", float(fch1)),
        ("foff", float(foff)), ("nchans", int(nchans)), ("nbeams", 1), ("ibeam", 1),
        ("nbits", int(nbits)), ("tstart", float(tstart)), ("tsamp", float(tsamp)), ("nifs", 1),
    ]
    if refdm is not None:
        items.insert(9, ("refdm", float(refdm)))
    items.extend(extra)
    return items


# registry of the input files synthesised during the current case: path -> (size, crc).  The driver audits it after every
# case of the monitors that opt in (AUDIT_INPUT_FILES): no library call may change a file it was only asked to read.
_INPUTS: dict[str, tuple[int, int]] = {}


def _digest(path: str) -> tuple[int, int]:
    import zlib

    crc, size = 0, 0
    with open(path, "rb") as fh:
        while True:
            b = fh.read(1 << 22)
            if not b:
                break
            crc = zlib.crc32(b, crc)
            size += len(b)
    return size, crc


def register_input(path: str) -> None:
    _INPUTS[path] = _digest(path)


def forget_inputs() -> None:
    _INPUTS.clear()


def audit_inputs() -> list[str]:
    """Paths of registered input files that still exist but no longer hold the bytes that were written."""
    bad = []
    for path, dig in _INPUTS.items():
        if os.path.exists(path) and _digest(path) != dig:
            bad.append(path)
    return bad


def write_fil(path: str, X: np.ndarray, nbits: int, **hdr) -> tuple[int, int]:
    """Write one SIGPROC file; returns (hdrlen, datalen)."""
    X = np.asarray(X)
    items = std_items(nchans=X.shape[1], nbits=nbits, **hdr)
    h = encode_header(items)
    d = encode_data(X, nbits)
    with open(path, "wb") as fh:
        fh.write(h)
        fh.write(d)
    register_input(path)
    return len(h), len(d)


def write_split(dirpath: str, X: np.ndarray, nbits: int, split, *, tsamp=1e-3, tstart=58000.0,
                stem="in", vary_hdr=True, **hdr) -> list[str]:
    """Write X over len(split) contiguous files (split = samples per file).

    Header lengths differ between files (through rawdatafile, which the
    library exempts from header matching) when vary_hdr is set.
    """
    assert sum(split) == X.shape[0], (split, X.shape)
    paths, pos = [], 0
    for i, n in enumerate(split):
        p = os.path.join(dirpath, f"{stem}_{i}.fil")
        raw = "r" + "x" * (3 * i + 1) if vary_hdr else "raw"
        write_fil(p, X[pos : pos + n], nbits, tsamp=tsamp, tstart=tstart + pos * tsamp / 86400.0,
                  rawdatafile=raw, **hdr)
        paths.append(p)
        pos += n
    return paths


def maxval(nbits: int) -> int:
    return (1 << nbits) - 1


def random_samples(rng: np.random.Generator, nsamps: int, nchans: int, nbits: int, *, small=False) -> np.ndarray:
    """Integer-valued samples representable at the depth (float32 for 32 bits)."""
    if nbits == 32:
        hi = 64 if small else 4096
        return rng.integers(-hi if not small else 0, hi, size=(nsamps, nchans)).astype(np.float32)
    hi = min(maxval(nbits), 4095 if small else maxval(nbits))
    return rng.integers(0, hi + 1, size=(nsamps, nchans)).astype(np.uint16 if nbits == 16 else np.uint8)


def legal_nchans(nbits: int, want: int) -> int:
    """Smallest channel count >= want with nchans*nbits a multiple of 8."""
    per = max(1, 8 // nbits)
    return ((want + per - 1) // per) * per
