"""Schedule stress for numba parallel kernels + a deliberately racy sensitivity probe.

`sweep(run, configs)` executes `run()` under every (threads, chunksize) configuration R times and returns the
digests.  The probe is a realistic wrong-axis kernel (prange over samples accumulating into a per-channel
output): if a sweep's schedules never make the probe produce a wrong answer, the sweep says nothing about
races and the caller must report *inconclusive*.
"""
from __future__ import annotations

import hashlib

import numba
import numpy as np
from numba import njit, prange


@njit(parallel=True, cache=False)
def racy_probe(inarray, outarray, nchans, nsamps):
    # WRONG ON PURPOSE: every thread updates the same per-channel accumulators
    for isamp in prange(nsamps):
        for ichan in range(nchans):
            outarray[ichan] += inarray[nchans * isamp + ichan]


def digest(arr) -> str:
    a = np.ascontiguousarray(arr)
    return hashlib.blake2b(a.view(np.uint8).tobytes() if a.dtype.fields is None else a.tobytes(), digest_size=8).hexdigest()


def configs(tier: str):
    maxt = numba.config.NUMBA_NUM_THREADS
    threads = [t for t in ((1, 2, 3, 4, 8, 16) if tier == "quick" else range(1, 17)) if t <= maxt]
    chunks = (0, 1, 2, 3, 7, 64)
    return [(t, k) for t in threads for k in chunks]


def run_config(t, k, fn):
    numba.set_num_threads(t)
    numba.set_parallel_chunksize(k)
    try:
        return fn()
    finally:
        numba.set_parallel_chunksize(0)


def probe_sensitivity(cfgs, reps, rng, nchans=8, nsamps=40000):
    """Run the racy probe under the same configurations; returns (runs, wrong)."""
    data = rng.integers(0, 4, size=nchans * nsamps).astype(np.float32)
    want = data.reshape(nsamps, nchans).sum(axis=0)
    runs = wrong = 0
    for (t, k) in cfgs:
        if t == 1:
            continue
        for _ in range(reps):
            out = np.zeros(nchans, dtype=np.float32)
            run_config(t, k, lambda: racy_probe(data, out, nchans, nsamps))
            runs += 1
            if not np.array_equal(out, want):
                wrong += 1
    return runs, wrong
