"""Synthetic search-mode PSRFITS writer (astropy.io.fits), independent of sigpyproc.io.pfits."""
from __future__ import annotations

import numpy as np
from astropy.io import fits

from vlib import sigfile


def write_psrfits(path, raw, *, nbits, pol_type, freqs, tbin, scl, offs, wts, zero_off, imjd=58000, smjd=1234, offs_s=0.25, nstot=None, chan_bw=None, cell_pad=0):
    """raw: (nsub, nsblk, npol, nchan) integer samples (< 2**nbits); scl/offs: (nsub, npol, nchan); wts: (nsub, nchan); freqs: (nchan,) MHz."""
    nsub, nsblk, npol, nchan = raw.shape
    # cell_pad=k: the per-channel table cells keep the width of a band of nchan+k channels (a sub-band file cut out of a wider observation
    # by a tool that left the column formats alone): the file's own values lead, filler follows.  Readers use the leading NCHAN (NPOL*NCHAN) entries.
    kp = int(cell_pad)
    def _padded(a, fill):          # a: (nsub, w) -> (nsub, w + extra) with the file's values first
        extra = kp if a.shape[1] == nchan else kp * npol
        return np.concatenate([a, np.full((nsub, extra), fill, dtype=a.dtype)], axis=1) if kp else a
    pri = fits.PrimaryHDU()
    h = pri.header
    for k, v in (("HDRVER", "6.1"), ("FITSTYPE", "PSRFITS"), ("OBSERVER", "verif"), ("PROJID", "P000"), ("TELESCOP", "Parkes"),
                 ("ANT_X", -4554231.6), ("ANT_Y", 2816759.1), ("ANT_Z", -3454036.1), ("FRONTEND", "UWL"), ("IBEAM", 1), ("NRCVR", 2),
                 ("FD_POLN", "LIN"), ("FD_HAND", -1), ("FD_SANG", 0.0), ("FD_XYPH", 0.0), ("BACKEND", "Medusa"), ("BECONFIG", "Medusa"),
                 ("BE_PHASE", 1), ("BE_DCC", 1), ("BE_DELAY", 0.0), ("TCYCLE", 0.0), ("OBS_MODE", "SEARCH"), ("DATE-OBS", "2017-09-04T00:20:34"),
                 ("OBSFREQ", float(np.mean(freqs))), ("OBSBW", float(abs(freqs[-1] - freqs[0]) + abs(freqs[1] - freqs[0]) if nchan > 1 else 1.0)),
                 ("OBSNCHAN", nchan + kp), ("CHAN_DM", 0.0), ("SRC_NAME", "J0437-4715"), ("COORD_MD", "J2000"), ("EQUINOX", 2000.0),
                 ("RA", "04:37:15.8"), ("DEC", "-47:15:09.1"), ("FD_MODE", "FA"), ("FA_REQ", 0.0),
                 ("STT_IMJD", imjd), ("STT_SMJD", smjd), ("STT_OFFS", offs_s)):
        h[k] = v
    if nbits == 8:
        data_bytes = raw.astype(np.uint8).reshape(nsub, -1)
        tdim = f"({nchan},{npol},{nsblk})"
    else:
        per = 8 // nbits
        data_bytes = np.stack([sigfile.pack_bits(raw[i].ravel(), nbits, "big") for i in range(nsub)])
        tdim = f"({nchan},{npol},{nsblk // per})"
    nb = data_bytes.shape[1]
    foff = float(freqs[1] - freqs[0]) if nchan > 1 else -1.0
    cols = [
        fits.Column(name="TSUBINT", format="1D", unit="s", array=np.full(nsub, nsblk * tbin)),
        fits.Column(name="OFFS_SUB", format="1D", unit="s", array=(np.arange(nsub) + 0.5) * nsblk * tbin),
        fits.Column(name="DAT_FREQ", format=f"{nchan + kp}D", unit="MHz", array=_padded(np.tile(np.asarray(freqs, dtype=np.float64), (nsub, 1)), 0.0)),
        fits.Column(name="DAT_WTS", format=f"{nchan + kp}E", array=_padded(wts.astype(np.float32), 0.0)),
        fits.Column(name="DAT_OFFS", format=f"{(nchan + kp) * npol}E", array=_padded(offs.reshape(nsub, -1).astype(np.float32), -777.0)),
        fits.Column(name="DAT_SCL", format=f"{(nchan + kp) * npol}E", array=_padded(scl.reshape(nsub, -1).astype(np.float32), 1000.0)),
        fits.Column(name="DATA", format=f"{nb}B", dim=tdim, array=data_bytes.reshape((nsub,) + tuple(int(v) for v in tdim.strip("()").split(","))[::-1])),
    ]
    tab = fits.BinTableHDU.from_columns(cols, name="SUBINT")
    t = tab.header
    for k, v in (("INT_TYPE", "TIME"), ("INT_UNIT", "SEC"), ("SCALE", "FluxDen"), ("POL_TYPE", pol_type), ("NPOL", npol), ("TBIN", float(tbin)), ("NBIN", 1),
                 ("NBITS", nbits), ("ZERO_OFF", zero_off if isinstance(zero_off, int) else float(zero_off)), ("SIGNINT", 0), ("NSUBOFFS", 0), ("NCHAN", nchan), ("CHAN_BW", foff if chan_bw is None else float(chan_bw)), ("NSBLK", nsblk),
                 ("NSTOT", nsub * nsblk if nstot is None else int(nstot))):
        t[k] = v
    fits.HDUList([pri, tab]).writeto(path, overwrite=True)


def reference_values(raw, *, pol_type, freqs, scl, offs, wts, zero_off):
    """float64 evaluation of what a reader must return: (nsamples, nchan) in descending-frequency order."""
    nsub, nsblk, npol, nchan = raw.shape
    x = (raw.astype(np.float64) - zero_off) * scl[:, None, :, :].astype(np.float32).astype(np.float64) + offs[:, None, :, :].astype(np.float32).astype(np.float64)
    x = x * wts[:, None, None, :].astype(np.float32).astype(np.float64)
    if pol_type in ("AABBCRCI", "XXYYCRCI", "LLRRCRCI"):
        y = (x[:, :, 0, :] + x[:, :, 1, :]) / np.sqrt(2.0)
    else:  # Stokes / intensity: first product
        y = x[:, :, 0, :]
    y = y.reshape(nsub * nsblk, nchan)
    if nchan > 1 and freqs[1] > freqs[0]:
        y = y[:, ::-1]
    return y
