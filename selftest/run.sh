#!/bin/bash
# Mutation self-test: every patch under selftest/patches must make the quick check of its property exit 1.
# Runs on scratch worktrees of /repo (tools/try_patch.py); never touches /repo itself.  Not a registered check.
cd "$(dirname "$0")/.."
python3 - <<'PY'
import json, subprocess, sys, os
ms = json.load(open("selftest/mutants.json"))
only = set(sys.argv[1:])
res = []
for m in ms:
    if only and m["id"] not in only: continue
    r = subprocess.run(["tools/try_patch.py", f"selftest/patches/{m['id']}.diff", m["property"]], capture_output=True, text=True)
    first = r.stdout.strip().splitlines()
    status = "CAUGHT" if r.returncode == 0 else "NOT-CAUGHT"
    print(f"{m['id']:22s} {m['property']} {status}  " + (first[1].strip()[:150] if len(first) > 1 else (first[0] if first else r.stderr[-200:])), flush=True)
    res.append({"id": m["id"], "property": m["property"], "status": status, "report": first[:4]})
json.dump(res, open("selftest/last_result.json", "w"), indent=1)
print(sum(r["status"] == "CAUGHT" for r in res), "of", len(res), "mutants caught")
PY
