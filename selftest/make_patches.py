#!/usr/bin/env python3
"""Generate the self-test mutation patches (one realistic property-breaking edit each) against /repo HEAD.

Each mutant is (id, property, file, old, new, what). Patches are written to selftest/patches/<id>.diff.
"""
import os, shutil, subprocess, sys, tempfile

HERE = os.path.dirname(os.path.abspath(__file__))
M = [
 ("c01_plan_arith", "C01", "sigpyproc/readers.py", "nreads, lastread = divmod(nsamps - skipback, (gulp - skipback))\n        if lastread != 0:\n            lastread += skipback\n        blocks = [\n            (ii, gulp * self.header.nchans", "nreads, lastread = divmod(nsamps, (gulp - skipback))\n        blocks = [\n            (ii, gulp * self.header.nchans", "FilReader.read_plan ignores the overlap when counting reads"),
 ("c01_seek_subbyte", "C01", "sigpyproc/readers.py", "self._file.seek(int(skip * self.chan_stride), whence=1)", "self._file.seek(int(skip) * int(self.chan_stride), whence=1)", "skip-back seek truncates the channel stride: no rewind at 1/2/4 bits"),
 ("c02_hdrlen0", "C02", "sigpyproc/io/fileio.py", "        self._open(ifile)\n        self.file_obj.seek(self.sinfo.entries[ifile].hdrlen)", "        self._open(ifile)\n        self.file_obj.seek(self.sinfo.entries[0].hdrlen)", "every file of a set is assumed to have the first file's header length"),
 ("c03_unpack2_little", "C03", "sigpyproc/core/kernels.py", "        unpacked[pos + 1] = (array[ii] & 0x0C) >> 2\n        unpacked[pos + 2] = (array[ii] & 0x30) >> 4\n        unpacked[pos + 3] = (array[ii] & 0xC0) >> 6", "        unpacked[pos + 2] = (array[ii] & 0x0C) >> 2\n        unpacked[pos + 1] = (array[ii] & 0x30) >> 4\n        unpacked[pos + 3] = (array[ii] & 0xC0) >> 6", "two fields swapped in the 2-bit little-endian unpacker"),
 ("c04_no_cast", "C04", "sigpyproc/io/fileio.py", "        arr = np.ascontiguousarray(arr, dtype=self.bitsinfo.dtype)\n", "", "cwrite writes the array at its own width"),
 ("c05_dec_sign", "C05", "sigpyproc/io/sigproc.py", '{sign}{int(de)} {int(ami)} {ase}"', '{int(de) if sign == "" else -int(de)} {int(ami)} {ase}"', "declination sign lost between 0 and -1 degree"),
 ("c06_collapse_index", "C06", "sigpyproc/base.py", "kernels.extract_tim(data, tim_ar, self.header.nchans, nsamps_r, ii * gulp)", "kernels.extract_tim(data, tim_ar, self.header.nchans, nsamps_r, ii * nsamps_r)", "collapse offsets the last partial block by its own length"),
 ("c07_subband_nozero", "C07", "sigpyproc/base.py", "            out_ar.fill(0)\n", "", "sub-band accumulator not cleared between blocks"),
 ("c08_int_trunc", "C08", "sigpyproc/readers.py", "        chan_start = round((fch1 - self.header.fch1) / self.header.foff)\n        if chan_start < 0 or chan_start + nchans > self.header.nchans:\n            msg = f\"requested block is out of range: fch1={fch1}, nchans={nchans}\"\n            raise ValueError(msg)\n        if start < 0 or start + nsamps > self.header.nsamples:\n            msg = f\"requested block is out of range: start={start}, nsamps={nsamps}\"\n            raise ValueError(msg)\n\n        self._file.seek", "        chan_start = int((fch1 - self.header.fch1) / self.header.foff)\n        if chan_start < 0 or chan_start + nchans > self.header.nchans:\n            msg = f\"requested block is out of range: fch1={fch1}, nchans={nchans}\"\n            raise ValueError(msg)\n        if start < 0 or start + nsamps > self.header.nsamples:\n            msg = f\"requested block is out of range: start={start}, nsamps={nsamps}\"\n            raise ValueError(msg)\n\n        self._file.seek", "read_block truncates the channel index"),
 ("c09_valid_sign", "C09", "sigpyproc/block.py", "new_ar = kernels.roll_block_valid(self.data, -delays)", "new_ar = kernels.roll_block_valid(self.data, delays)", "valid-samples dedispersion rolls the wrong way"),
 ("c10_merge_m3", "C10", "sigpyproc/core/kernels.py", "delta3 * na * nb * (na - nb) / (nc**2)", "delta3 * na * nb * (nb - na) / (nc**2)", "third-moment merge term has the wrong sign"),
 ("c11_fold_index", "C11", "sigpyproc/base.py", "                nints,\n                nbands,\n                ii * (gulp - max_delay),\n            )", "                nints,\n                nbands,\n                ii * gulp,\n            )", "fold passes the wrong absolute sample index for blocks after the first when DM > 0"),
 ("c12_goodsize", "C12", "sigpyproc/core/kernels.py", "    n_good = nb_fft_good_size(n, real=True)\n    sp1 = np.fft.rfft(in1, n_good)", "    n_good = nb_fft_good_size(max(n1, n2), real=True)\n    sp1 = np.fft.rfft(in1, n_good)", "fftconvolve pads to the longer input only: circular wrap-around"),
 ("c13_no_reverse", "C13", "sigpyproc/core/kernels.py", "        temp_pad = np.roll(temp_pad[::-1], 1)\n", "", "matched filter convolves instead of correlating (no time reversal)"),
 ("c14_even_pad", "C14", "sigpyproc/core/stats.py", "(window // 2, window // 2) if window % 2 else (window // 2, window // 2 - 1)", "(window // 2, window // 2) if window % 2 else (window // 2 - 1, window // 2)", "even running windows are centred one sample late"),
 ("c15_qn_axis", "C15", "sigpyproc/core/stats.py", "    return apply_along_axes(_scale_qn_1d, data, axis)", "    return apply_along_axes(_scale_qn_1d, data, axis if axis is None else 0)", "Qn scale always reduces axis 0"),
 ("c16_mask_last", "C16", "sigpyproc/core/kernels.py", "        if mask[ichan]:\n            for isamp in range(nsamps):", "        if mask[ichan]:\n            for isamp in range(nsamps - (nsamps > 1)):", "last sample of every multi-sample block left unmasked"),
 ("c16_drop_user", "C16", "sigpyproc/core/rfi.py", "        self.chan_mask = np.logical_or(self.chan_mask, self.stats_mask)", "        self.chan_mask = self.stats_mask.copy()", "apply_method overwrites the mask instead of adding to it"),
 ("c17_current_dm", "C17", "sigpyproc/foldedcube.py", "delta_dm = newdm - self._ref_dm", "delta_dm = newdm - self.dm", "DM drift measured from the current DM"),
 ("c18_nsubs", "C18", "sigpyproc/readers.py", "        # The request starts startsamp samples into its first sub-integration\n        nsubs = (\n            startsamp + nsamps + self.sub_hdr.subint_samples - 1", "        # The request starts startsamp samples into its first sub-integration\n        nsubs = (\n            nsamps + self.sub_hdr.subint_samples - 1", "PSRFITS read_block ignores the start offset when counting rows"),
 ("c19_bpass_race", "C19", "sigpyproc/core/kernels.py", "    for ichan in prange(nchans):\n        for isamp in range(nsamps):\n            outarray[ichan] += inarray[nchans * isamp + ichan]", "    for isamp in prange(nsamps):\n        for ichan in range(nchans):\n            outarray[ichan] += inarray[nchans * isamp + ichan]", "bandpass kernel parallelised over samples: data race on the per-channel accumulators"),
 ("c20_buffered", "C20", "sigpyproc/io/fileio.py", "        super().__init__([file], mode)\n        self.bitsinfo = BitsInfo(nbits)", "        super().__init__([file], mode)\n        self.file_obj = io.BufferedRandom(self.file_obj, buffer_size=1 << 20)\n        self.bitsinfo = BitsInfo(nbits)", "writer buffers its output"),
 ("c20_header_patch", "C20", "sigpyproc/base.py", "            out_file.cwrite(data)\n        out_file.close()\n        return outfile_name\n\n    def extract_chans", "            out_file.cwrite(data)\n        out_file.file_obj.seek(0)\n        out_file.write(sigproc_hdr_bytes(self, start))\n        out_file.close()\n        return outfile_name\n\n    def extract_chans", "extract_samps rewrites the header after the data"),
]

def main():
    out = os.path.join(HERE, "patches")
    os.makedirs(out, exist_ok=True)
    wt = tempfile.mkdtemp(prefix="mk-", dir="/tmp"); os.rmdir(wt)
    subprocess.run(["git", "-C", "/repo", "worktree", "add", "-q", "--detach", wt, "HEAD"], check=True)
    try:
        for mid, prop, rel, old, new, what in M:
            path = os.path.join(wt, rel)
            s = open(path).read()
            if mid == "c20_header_patch":
                new = new.replace("sigproc_hdr_bytes(self, start)", "__import__('sigpyproc.io.sigproc', fromlist=['x']).encode_header(self.header.new_header({'tstart': self.header.mjd_after_nsamps(start)}).to_sigproc())")
            if s.count(old) != 1:
                print(f"!! {mid}: pattern found {s.count(old)} times"); continue
            open(path, "w").write(s.replace(old, new))
            d = subprocess.run(["git", "-C", wt, "diff"], capture_output=True, text=True).stdout
            open(os.path.join(out, f"{mid}.diff"), "w").write(d)
            subprocess.run(["git", "-C", wt, "checkout", "-q", "--", "."], check=True)
            print("ok", mid)
        import json
        extra_path = os.path.join(HERE, "extra_mutants.json")   # hand-made patches (e.g. reverts of fixes) kept next to the generated ones
        extra = json.load(open(extra_path)) if os.path.exists(extra_path) else []
        json.dump([{"id": m[0], "property": m[1], "file": m[2], "what": m[5]} for m in M] + extra, open(os.path.join(HERE, "mutants.json"), "w"), indent=1)
    finally:
        subprocess.run(["git", "-C", "/repo", "worktree", "remove", "--force", wt])

if __name__ == "__main__":
    main()
