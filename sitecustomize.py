"""Harness-side serialisation of numba's on-disk cache writes (loaded automatically by every Python process that has /verif on PYTHONPATH).

Why: the checks shard their work over up to 16 worker processes that share one NUMBA_CACHE_DIR.  numba 0.67's
IndexDataCacheFile.save() re-reads the index, picks the first unused data-file name, writes the index and then the data file, with no
inter-process lock.  When the cache is cold (first run after FRBs/sigpyproc3's sources changed) two workers compiling *different*
signatures of one kernel at the same moment both pick the same data-file name; the index that survives may then map signature A to machine
code compiled for signature B, and a third process that loads it fails with "TypeError: can't unbox array from PyObject into native
value" - or computes garbage.  Observed once on the unchanged tree (C07, right after a repair commit had invalidated the cache): a false
alarm produced by the harness's own process fan-out, not by the library.  The library is not modified; only the way *our* processes
write the cache is: save() runs under an exclusive flock, and writes the data file before the index refers to it, so that an index entry
never points at a stale file of an earlier source generation.

Nothing here changes what gets compiled or executed.  Disabled with VERIF_NO_CACHE_LOCK=1.
"""
import importlib.abc
import importlib.util
import os
import sys


def _patch(caching):
    import fcntl
    import itertools

    cls = caching.IndexDataCacheFile
    if getattr(cls, "_verif_locked", False):
        return

    def save(self, key, data):
        lock_path = self._index_path + ".verif-lock"
        with open(lock_path, "a") as lf:
            fcntl.flock(lf, fcntl.LOCK_EX)
            try:
                overloads = self._load_index()
                new = key not in overloads
                if new:
                    existing = set(overloads.values())
                    for i in itertools.count(1):
                        data_name = self._data_name(i)
                        if data_name not in existing:
                            break
                else:
                    data_name = overloads[key]
                self._save_data(data_name, data)
                if new:
                    overloads[key] = data_name
                    self._save_index(overloads)
            finally:
                fcntl.flock(lf, fcntl.LOCK_UN)

    cls.save = save
    cls._verif_locked = True


class _Finder(importlib.abc.MetaPathFinder):
    """Apply _patch right after numba.core.caching has been executed, without importing numba in processes that never use it."""

    def find_spec(self, fullname, path, target=None):
        if fullname != "numba.core.caching":
            return None
        sys.meta_path.remove(self)
        spec = importlib.util.find_spec(fullname)
        if spec is None or spec.loader is None:
            return None
        orig_exec = spec.loader.exec_module

        def exec_module(module, _orig=orig_exec):
            _orig(module)
            try:
                _patch(module)
            except Exception:  # noqa: BLE001 - never break the process over this
                pass

        spec.loader.exec_module = exec_module
        return spec


if not os.environ.get("VERIF_NO_CACHE_LOCK"):
    if "numba.core.caching" in sys.modules:
        _patch(sys.modules["numba.core.caching"])
    else:
        sys.meta_path.insert(0, _Finder())

# line coverage of the library under the checks (tools/coverage_run.sh): only when explicitly requested
if os.environ.get("COVERAGE_PROCESS_START"):
    try:
        import coverage

        coverage.process_startup()
    except Exception:  # noqa: BLE001
        pass
